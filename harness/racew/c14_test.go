// Package racew holds the data-race check (C14); its binary is built with
// -race. The oracle is the race detector's happens-before monitor: the test
// only generates and runs concurrent programs over the documented-safe API,
// the driver parses the detector's reports.
package racew

import (
	"fmt"
	"os"
	"reflect"
	"sync"
	"sync/atomic"
	"testing"
	"time"

	erpc "github.com/henrylee2cn/erpc/v6"
	"github.com/henrylee2cn/erpc/v6/codec"
	"github.com/henrylee2cn/erpc/v6/plugin/overloader"
	"github.com/henrylee2cn/erpc/v6/plugin/secure"
	"pgregory.net/rapid"

	"verifharness/vt"
)

type RArg struct {
	S string
	N int
}

var handled int64

var setupOnce sync.Once

// hostileNoEOF counts hostile connections that were not closed by the serving peer within the liveness bound.
var hostileNoEOF int64

// RaceSlow is a handler that is still running when the next frame of its connection arrives.
func RaceSlow(ctx erpc.CallCtx, a *RArg) (*RArg, *erpc.Status) {
	time.Sleep(time.Duration(100+a.N%400) * time.Microsecond)
	return &RArg{S: a.S, N: a.N + 1}, nil
}

func RaceEcho(ctx erpc.CallCtx, a *RArg) (*RArg, *erpc.Status) {
	atomic.AddInt64(&handled, 1)
	// handlers use the session too
	ctx.Session().Health()
	_ = ctx.Session().ID()
	ctx.Swap().Store("h", a.N)
	ctx.SetMeta("k", a.S)
	if a.N%5 == 0 {
		return nil, erpc.NewStatus(4500, "no", "race")
	}
	return &RArg{S: a.S, N: a.N + 1}, nil
}

func RaceNote(ctx erpc.PushCtx, a *RArg) *erpc.Status {
	atomic.AddInt64(&handled, 1)
	_ = ctx.Session().ID()
	return nil
}

// agePlugin exercises the age setters where they are documented: in the accept hook.
type agePlugin struct{}

func (agePlugin) Name() string { return "c14age" }
func (agePlugin) PostAccept(s erpc.PreSession) *erpc.Status {
	s.SetSessionAge(0)
	s.SetContextAge(time.Minute)
	return nil
}

var opKinds = []string{"call", "call", "asynccall", "inspect", "inspect", "push", "rpush", "rcall", "setid", "swapstore", "swapload", "swaprange", "ages", "health", "closenotify", "getsession", "rangesession", "countsession", "hostile", "close"}

// operations that do not involve a network round trip
var localOps = map[string]bool{"setid": true, "swapstore": true, "swapload": true, "swaprange": true, "ages": true, "health": true,
	"closenotify": true, "getsession": true, "rangesession": true, "countsession": true, "inspect": true}

type prog struct {
	Proto   string
	Links   int
	Workers [][]string
	LogInfo bool
	Pipe    bool
	Burst   int // every worker repeats its op list this many times (contention bursts: few workers, few ops, many rounds)
}

func genProg(t *rapid.T, protos []vt.NamedProto) prog {
	p := prog{Proto: rapid.SampledFrom(protos).Draw(t, "proto").Name, Links: rapid.IntRange(1, 2).Draw(t, "links")}
	p.Burst = rapid.SampledFrom([]int{1, 1, 1, 40, 400}).Draw(t, "burst")
	if p.Burst > 1 {
		// a narrow window between two operations needs the same pair to meet many times: all
		// workers draw from a focus set of 1-3 operation kinds and repeat them
		focus := rapid.SliceOfNDistinct(rapid.SampledFrom(opKinds[:len(opKinds)-1]), 1, 3, rapid.ID[string]).Draw(t, "focus")
		local := true
		for _, f := range focus {
			if !localOps[f] {
				local = false
			}
		}
		if local && p.Burst == 400 {
			p.Burst = 3000 // no network round trips involved: cheap
		} else if !local && p.Burst == 400 {
			p.Burst = 150 // round trips under the race detector are slow
		}
		n := rapid.IntRange(2, 4).Draw(t, "workers")
		for i := 0; i < n; i++ {
			p.Workers = append(p.Workers, rapid.SliceOfN(rapid.SampledFrom(focus), 1, 3).Draw(t, "ops"))
		}
	} else {
		n := rapid.IntRange(2, 10).Draw(t, "workers")
		for i := 0; i < n; i++ {
			p.Workers = append(p.Workers, rapid.SliceOfN(rapid.SampledFrom(opKinds), 1, 12).Draw(t, "ops"))
		}
	}
	p.LogInfo = os.Getenv("VERIF_C14_LOG") == "info"
	p.Pipe = rapid.Bool().Draw(t, "pipe")
	return p
}

func protoByName(ps []vt.NamedProto, name string) vt.NamedProto {
	for _, p := range ps {
		if p.Name == name {
			return p
		}
	}
	panic(name)
}

func runProg(p prog, protos []vt.NamedProto) (sameSessionPairs int) {
	// process-global knobs are set once per process (they are documented as not
	// safe for concurrent use and goroutines of earlier cases may still run)
	setupOnce.Do(func() {
		vt.Init()
		if os.Getenv("VERIF_C14_LOG") == "info" {
			vt.SetLogLevel(erpc.INFO)
		}
	})
	w := vt.NewWorld()
	defer w.Close()
	srv := w.Peer(erpc.PeerConfig{PrintDetail: true, CountTime: p.LogInfo}, agePlugin{})
	cli := w.Peer(erpc.PeerConfig{})
	callR, pushR := srv.RouteCallFunc(RaceEcho), srv.RoutePushFunc(RaceNote)
	slowR := srv.RouteCallFunc(RaceSlow)
	cli.RouteCallFunc(RaceEcho)
	cli.RoutePushFunc(RaceNote)
	var links []*vt.Link
	for i := 0; i < p.Links; i++ {
		l := w.Connect(cli, srv, protoByName(protos, p.Proto), nil)
		if l.A == nil || l.B == nil {
			return 0
		}
		links = append(links, l)
	}
	var settings []erpc.MessageSetting
	if p.Pipe {
		settings = append(settings, erpc.WithXferPipe(vt.XGzip5))
	}
	var wg sync.WaitGroup
	var idc int64
	touched := make([]int32, len(links))
	for wi, ops := range p.Workers {
		wg.Add(1)
		go func(wi int, ops []string) {
			defer wg.Done()
			l := links[wi%len(links)]
			atomic.AddInt32(&touched[wi%len(links)], 1)
			ch := make(chan erpc.CallCmd, len(ops)*p.Burst+1)
			var cmds []erpc.CallCmd
			for round := 0; round < p.Burst; round++ {
				if len(cmds) > 64 {
					cmds = cmds[:0]
				}
				for oi, op := range ops {
					arg := &RArg{S: fmt.Sprintf("w%do%d", wi, oi), N: wi*100 + oi}
					switch op {
					case "call":
						cmds = append(cmds, l.A.Call(callR, arg, new(RArg), settings...))
					case "asynccall":
						cmds = append(cmds, l.A.AsyncCall(callR, arg, new(RArg), ch, settings...))
					case "inspect":
						// everything a completed call hands out may be read while other traffic flows
						for _, c := range cmds {
							select {
							case <-c.Done():
								c.StatusOK()
								_ = c.Status().Code()
								if m := c.InputMeta(); m != nil {
									m.Peek("k")
									m.VisitAll(func(k, v []byte) {})
								}
								c.InputBodyCodec()
								c.CostTime()
								if r, _ := c.Reply(); r != nil {
									_ = r.(*RArg).S
								}
							default:
							}
						}
					case "hostile":
						// one more connection of the serving peer, whose remote end sends a call to a
						// handler that takes a while and, behind it, a frame of an unsupported type
						// (the session is closed for that), while the other workers go on
						hp := vt.NewPair()
						go srv.ServeConn(hp.B, protoByName(protos, p.Proto).Fn)
						hr := vt.NewRawPeer(hp, hp.A, protoByName(protos, p.Proto).Fn)
						body := []byte(fmt.Sprintf(`{"S":%q,"N":%d}`, arg.S, arg.N))
						hr.Send(vt.Msg{Seq: 1, Mtype: erpc.TypeCall, Method: slowR, Codec: 'j', Body: body})
						hr.Send(vt.Msg{Seq: 2, Mtype: byte(9 + arg.N%40), Method: callR, Codec: 'j', Body: body})
						if !hr.WaitEOF() {
							atomic.AddInt64(&hostileNoEOF, 1)
						}
						hr.Close()
					case "push":
						l.A.Push(pushR, arg, settings...)
					case "rpush":
						l.B.Push(pushR, arg, settings...)
					case "rcall":
						l.B.Call(callR, arg, new(RArg), settings...)
					case "setid":
						l.B.SetID(fmt.Sprintf("id-%d", atomic.AddInt64(&idc, 1)))
					case "swapstore":
						l.B.Swap().Store(fmt.Sprintf("k%d", oi%3), wi)
					case "swapload":
						l.B.Swap().Load(fmt.Sprintf("k%d", oi%3))
					case "swaprange":
						l.A.Swap().Range(func(k, v interface{}) bool { return true })
					case "ages":
						_ = l.B.SessionAge()
						_ = l.B.ContextAge()
						_ = l.A.ContextAge()
					case "health":
						l.A.Health()
						l.B.Health()
					case "closenotify":
						select {
						case <-l.B.CloseNotify():
						default:
						}
					case "getsession":
						srv.GetSession(l.B.ID())
					case "rangesession":
						srv.RangeSession(func(s erpc.Session) bool { _ = s.ID(); return true })
					case "countsession":
						srv.CountSession()
						cli.CountSession()
					case "close":
						if oi == len(ops)-1 { // closing ends the fun for everybody: only as a last op
							if wi%2 == 0 {
								l.B.Close()
							} else {
								l.A.Close()
							}
						}
					}
				}
			}
		}(wi, ops)
	}
	done := make(chan struct{})
	go func() { wg.Wait(); close(done) }()
	// the oracle here is the race detector, not a liveness bound: a burst of network
	// operations may take long on a loaded machine
	select {
	case <-done:
	case <-time.After(20 * time.Minute):
		// not a verdict: under the race detector on a loaded machine a burst can simply be slow.
		// The driver maps this marker to "inconclusive" (exit 2).
		fmt.Println("VERIF-INFRA: the workers of a C14 program did not finish within 20 minutes\n" + vt.GoroutineDump())
		os.Exit(3)
	}
	for i := range touched {
		if atomic.LoadInt32(&touched[i]) >= 2 {
			sameSessionPairs++
		}
	}
	return sameSessionPairs
}

func TestC14Programs(t *testing.T) {
	rec := vt.NewRec(t, "C14", "programs", "generated concurrent programs: 2-10 goroutines each running 1-12 documented-safe operations (Call, AsyncCall, inspection of completed calls' status/result/reply metadata, Push in both directions, handler replies, an extra connection of the serving peer whose remote end sends a call to a slow handler and behind it a frame of an unsupported type - the framework closes that session while the other goroutines go on -, SetID, Swap store/load/range, age getters, Health, CloseNotify, GetSession, RangeSession, CountSession, Close as a last op) on 1-2 shared sessions between two peers, two programs in five as contention bursts (2-4 goroutines repeating 1-3 operations drawn from a per-program focus set of 1-3 kinds, 40 / 150 times, 3000 times when no network round trip is involved), protocols raw/json/pb, with/without a filter pipe, a second process runs the same generator with run-logging at INFO and PrintDetail; oracle: the Go race detector (binary built with -race), reports are parsed by the driver and count only if both accesses are in framework code; non-trivial = >=2 goroutines touched the same session (measured); distinct by program")
	protos := vt.StreamProtos()
	defer func() {
		if n := atomic.LoadInt64(&hostileNoEOF); n > 0 {
			rec.Note("%d hostile connection(s) were not closed by the serving peer within the liveness bound (not judged here: C03/C06)", n)
		}
	}()
	rapid.Check(t, func(t *rapid.T) {
		p := genProg(t, protos)
		shared := runProg(p, protos)
		rec.Case(fmt.Sprintf("%+v", p), shared > 0, "proto="+p.Proto, fmt.Sprintf("loginfo=%v", p.LogInfo), fmt.Sprintf("burst=%d", p.Burst))
		for _, ops := range p.Workers {
			for _, o := range ops {
				rec.Class("op="+o, 1)
			}
		}
		if rec.WantSample() && shared > 0 {
			rec.Sample(p)
		}
	})
}

// TestC14Pairs is the systematic part: every unordered pair of operation kinds (a kind with
// itself included) meets on one session, two goroutines per kind, many rounds.
func TestC14Pairs(t *testing.T) {
	rec := vt.NewRec(t, "C14", "pairs", "pairwise contention sweep: for every unordered pair {X, Y} of the documented-safe operation kinds (X = Y included; Close excluded) two goroutines repeat X and two repeat Y on the same session (raw protocol), VERIF_C14_ROUNDS rounds each for operations without a network round trip and a tenth of that otherwise; oracle: the Go race detector; every case is non-trivial; the pair list is enumerated completely")
	kinds := []string{}
	seen := map[string]bool{}
	for _, k := range opKinds {
		if k != "close" && !seen[k] {
			seen[k] = true
			kinds = append(kinds, k)
		}
	}
	rounds := 1500
	if v := os.Getenv("VERIF_C14_ROUNDS"); v != "" {
		fmt.Sscanf(v, "%d", &rounds)
	}
	protos := vt.StreamProtos()
	for i, x := range kinds {
		for _, y := range kinds[i:] {
			n := rounds
			if !localOps[x] || !localOps[y] {
				n = rounds / 10
			}
			p := prog{Proto: protos[0].Name, Links: 1, Burst: n, Workers: [][]string{{x}, {y}, {x}, {y}}}
			runProg(p, protos)
			rec.Case(x+"|"+y, true, "pair")
		}
	}
	rec.SetExhaustive()
}

// TestC14Codecs: the body codecs are process-wide singletons that every session's goroutines
// use at once (callers marshal, readers unmarshal, handlers' results are marshalled). Values of
// struct types the process has not seen before arrive all the time (every new handler).
func TestC14Codecs(t *testing.T) {
	rec := vt.NewRec(t, "C14", "codecs", "2-8 goroutines marshal and unmarshal through one built-in body codec (json / xml / form / plain / protobuf) at the same time, each with values of struct types created for this case (reflect.StructOf, so the codec meets them for the first time concurrently); oracle: the Go race detector; every case non-trivial; distinct by case")
	rapid.Check(t, func(t *rapid.T) {
		name := rapid.SampledFrom([]string{"json", "xml", "form", "form", "plain", "protobuf"}).Draw(t, "codec")
		g := rapid.IntRange(2, 8).Draw(t, "goroutines")
		nf := rapid.IntRange(1, 4).Draw(t, "fields")
		salt := rapid.IntRange(0, 1<<30).Draw(t, "salt")
		rec.Case(fmt.Sprintf("%s|%d|%d|%d", name, g, nf, salt), true, "codec="+name)
		if rec.WantSample() {
			rec.Sample(map[string]interface{}{"codec": name, "goroutines": g, "fields": nf})
		}
		c, err := codec.GetByName(name)
		if err != nil {
			t.Fatalf("codec %s: %v", name, err)
		}
		start := make(chan struct{})
		var wg sync.WaitGroup
		for gi := 0; gi < g; gi++ {
			wg.Add(1)
			go func(gi int) {
				defer wg.Done()
				// a struct type nobody has used before
				fields := make([]reflect.StructField, nf)
				for i := range fields {
					fn := fmt.Sprintf("F%d_%d_%d", i, gi, salt)
					fields[i] = reflect.StructField{Name: fn, Type: reflect.TypeOf(""), Tag: reflect.StructTag(fmt.Sprintf(`json:"f%d" xml:"f%d" form:"f%d"`, i, i, i))}
				}
				typ := reflect.StructOf(fields)
				<-start
				for r := 0; r < 20; r++ {
					var v, d interface{}
					switch name {
					case "plain":
						s := fmt.Sprintf("g%dr%d", gi, r)
						v, d = &s, new(string)
					case "protobuf":
						v, d = &secure.Encrypt{Ciphertext: fmt.Sprintf("g%dr%d", gi, r)}, new(secure.Encrypt)
					default:
						pv := reflect.New(typ)
						for i := 0; i < nf; i++ {
							pv.Elem().Field(i).SetString(fmt.Sprintf("g%dr%df%d", gi, r, i))
						}
						v, d = pv.Interface(), reflect.New(typ).Interface()
					}
					b, err := c.Marshal(v)
					if err == nil {
						c.Unmarshal(b, d)
					}
				}
			}(gi)
		}
		close(start)
		wg.Wait()
	})
}

// TestC14Overloader: the overload plugin sits on the accept path and on every read; its limits
// are adjusted at run time by Update while connections are accepted, refused and served.
func TestC14Overloader(t *testing.T) {
	rec := vt.NewRec(t, "C14", "overloader", "a serving peer with the overload plugin (connection limit); one goroutine adjusts the limit through Update (between positive values) and reads LimitConfig, 2-6 goroutines connect (some are refused), call, push and close; oracle: the Go race detector; every case non-trivial; distinct by case")
	protos := vt.StreamProtos()
	rapid.Check(t, func(t *rapid.T) {
		setupOnce.Do(func() { vt.Init() })
		proto := rapid.SampledFrom(protos).Draw(t, "proto")
		g := rapid.IntRange(2, 6).Draw(t, "goroutines")
		rounds := rapid.IntRange(3, 12).Draw(t, "rounds")
		maxConn := int32(rapid.IntRange(1, 3).Draw(t, "maxconn"))
		rec.Case(fmt.Sprintf("%s|%d|%d|%d", proto.Name, g, rounds, maxConn), true, "proto="+proto.Name)
		if rec.WantSample() {
			rec.Sample(map[string]interface{}{"proto": proto.Name, "goroutines": g, "rounds": rounds, "max_conn": maxConn})
		}
		// (connection limit only: with QPS limits configured, any Update - even from a single
		// goroutine - races with the plugin's own ticker goroutine over limit/once; that is a
		// defect of the plugin's internals, not of the concurrent use this property is about)
		ov := overloader.New(overloader.LimitConfig{MaxConn: maxConn})
		w := vt.NewWorld()
		defer w.Close()
		srv := w.Peer(erpc.PeerConfig{}, ov)
		cli := w.Peer(erpc.PeerConfig{})
		callR, pushR := srv.RouteCallFunc(RaceEcho), srv.RoutePushFunc(RaceNote)
		var wg sync.WaitGroup
		stop := make(chan struct{})
		wg.Add(1)
		go func() {
			defer wg.Done()
			for i := 0; ; i++ {
				select {
				case <-stop:
					return
				default:
				}
				ov.Update(overloader.LimitConfig{MaxConn: 1 + int32(i%3)})
				_ = ov.LimitConfig().MaxConn
				time.Sleep(50 * time.Microsecond)
			}
		}()
		var cwg sync.WaitGroup
		for gi := 0; gi < g; gi++ {
			cwg.Add(1)
			go func(gi int) {
				defer cwg.Done()
				for r := 0; r < rounds; r++ {
					l := w.Connect(cli, srv, proto, nil)
					if l.A == nil || l.B == nil {
						if l.A != nil {
							l.A.Close()
						}
						continue // refused: over the connection limit
					}
					l.A.Call(callR, &RArg{S: "x", N: gi*100 + r}, new(RArg))
					l.A.Push(pushR, &RArg{S: "p", N: r})
					srv.CountSession()
					if r%2 == 0 {
						l.A.Close()
					} else {
						l.B.Close()
					}
				}
			}(gi)
		}
		cwg.Wait()
		close(stop)
		wg.Wait()
	})
}
