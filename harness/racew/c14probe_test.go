package racew

import (
	"fmt"
	"sync"
	"testing"
	"time"

	erpc "github.com/henrylee2cn/erpc/v6"

	"verifharness/vt"
)

// TestC14KnownProbes: the smallest program that shows the listed known finding
// C14:race-site:redial-resets-socket-in-use - several goroutines call over one redial-enabled
// client session while its connection is lost again and again, so that a writer meets the loss
// and re-establishes the session (socket.Reset) while the others are still using the socket.
// The race detector's reports are classified by the driver: reports whose stack runs through
// the redial closure into socket.Reset belong to the listed finding (KNOWN-FINDING line), any
// other report is a violation. Runs only while the finding is listed.
func TestC14KnownProbes(t *testing.T) {
	rec := vt.NewRec(t, "C14", "known-probes", "deterministic program for the listed known finding (a redial resets a socket that other goroutines are using): 4 goroutines x 150 calls on one redial-enabled client session over loopback TCP while the serving side kills the connection 40 times; oracle: race detector, reports classified by site")
	if !vt.IsKnown(estRedialSiteKey) {
		return
	}
	vt.Init()
	srv := erpc.NewPeer(erpc.PeerConfig{})
	defer srv.Close()
	srv.RouteCallFunc(probeEcho)
	es := &estServer{peer: srv, plan: []string{"keep"}}
	addr, err := es.listen()
	if err != nil {
		return
	}
	defer es.down()
	cli := erpc.NewPeer(erpc.PeerConfig{RedialTimes: -1, RedialInterval: time.Millisecond})
	defer cli.Close()
	sess, stat := cli.Dial(addr)
	if !stat.OK() {
		return
	}
	stop := make(chan struct{})
	var wg sync.WaitGroup
	for g := 0; g < 4; g++ {
		wg.Add(1)
		go func(g int) {
			defer wg.Done()
			for i := 0; i < 150; i++ {
				select {
				case <-stop:
					return
				default:
				}
				var res string
				arg := fmt.Sprintf("g%d-%d", g, i)
				vt.Returns(func() { sess.Call("/probe_echo", &arg, &res) })
			}
		}(g)
	}
	for k := 0; k < 40; k++ {
		time.Sleep(1500 * time.Microsecond)
		es.killAll()
	}
	done := make(chan struct{})
	go func() { wg.Wait(); close(done) }()
	if !vt.WaitClosed(done) {
		close(stop)
	}
	rec.Case("probe", true, "probe")
}

func probeEcho(ctx erpc.CallCtx, arg *string) (string, *erpc.Status) { return *arg, nil }
