package racew

import (
	"fmt"
	"net"
	"os"
	"runtime"
	"strings"
	"sync"
	"sync/atomic"
	"testing"
	"time"

	erpc "github.com/henrylee2cn/erpc/v6"
	"pgregory.net/rapid"

	"verifharness/vt"
)

// TestC14Establish: session ESTABLISHMENT is part of the concurrent program. The other C14
// programs create their sessions first and start the concurrent phase afterwards; here
// sessions come into being (peer.Dial over loopback TCP, ServeConn over the in-memory
// transport), lose their connection (the serving side kills connections at generated
// moments, so a fresh session's reader may run into disconnect / redial handling at once)
// and are re-established by the redial machinery WHILE other goroutines enumerate the
// peers' session indexes and use whatever sessions they find.

// estMark registers the sessions of the client peer before they become reachable (dial /
// accept hook, i.e. before Dial / ServeConn publish the session). Whoever meets a session later
// can tell whether the call that created it had returned at that moment. (The registry is kept
// by the harness and not in the session's Swap: a redial resets the socket and with it the Swap.)
type estMark struct {
	reg  sync.Map // session (as interface value) -> *estEntry
	base time.Time

	redialHooks int64
}

type estEntry struct {
	doneAt int64 // nanoseconds since base at which Dial/ServeConn had returned; 0 = not yet
	dialed bool  // created by Dial (false: by ServeConn)
}

func (m *estMark) Name() string { return "c14establish" }

func (m *estMark) PostDial(s erpc.PreSession, isRedial bool) *erpc.Status {
	if isRedial {
		atomic.AddInt64(&m.redialHooks, 1)
		return nil
	}
	m.reg.Store(interface{}(s), &estEntry{dialed: true})
	return nil
}

func (m *estMark) PostAccept(s erpc.PreSession) *erpc.Status {
	m.reg.Store(interface{}(s), &estEntry{})
	return nil
}

func (m *estMark) now() int64 {
	n := int64(time.Since(m.base))
	if n <= 0 {
		n = 1
	}
	return n
}

// returned is called by the establishing goroutine right after Dial / ServeConn returned.
func (m *estMark) returned(s erpc.Session) {
	if v, ok := m.reg.Load(interface{}(s)); ok {
		atomic.StoreInt64(&v.(*estEntry).doneAt, m.now())
	}
}

// estWindow is the "right after" window of the coverage measure (not a correctness signal).
const estWindow = int64(300 * time.Microsecond)

// age classifies a sighting: 0 = the establishing call had not returned yet, 1 = it returned
// less than estWindow ago, 2 = older (or a session that is not registered, e.g. of the serving
// peer); +3 for a session created by ServeConn rather than Dial.
func (m *estMark) age(s erpc.Session) int {
	v, ok := m.reg.Load(interface{}(s))
	if !ok {
		return 2
	}
	e := v.(*estEntry)
	k := 0
	if !e.dialed {
		k = 3
	}
	d := atomic.LoadInt64(&e.doneAt)
	if d == 0 {
		return k
	}
	if m.now()-d < estWindow {
		return k + 1
	}
	return k + 2
}

// estServer is the harness-owned loopback listener in front of the serving peer. For every
// accepted connection the next entry of the generated kill plan decides what happens to it.
type estServer struct {
	peer  erpc.Peer
	proto []erpc.ProtoFunc
	plan  []string // per accepted connection, cycled: keep | now | served | late1 | late2 | late3

	mu       sync.Mutex
	ln       net.Listener
	conns    []net.Conn
	late     []estLate
	accepted int
	budget   int // kills left

	nAccepted, nKilled int64
	quiet              int32 // 1 = no more kills (teardown)
	wg                 sync.WaitGroup
}

type estLate struct {
	c   net.Conn
	due int
}

func (s *estServer) listen() (string, error) {
	ln, err := net.Listen("tcp", "127.0.0.1:0")
	if err != nil {
		return "", err
	}
	s.ln = ln
	s.wg.Add(1)
	go func() {
		defer s.wg.Done()
		for {
			c, err := ln.Accept()
			if err != nil {
				return
			}
			atomic.AddInt64(&s.nAccepted, 1)
			var kill []net.Conn
			s.mu.Lock()
			i := s.accepted
			s.accepted++
			s.conns = append(s.conns, c)
			act := "keep"
			if s.budget > 0 && atomic.LoadInt32(&s.quiet) == 0 {
				act = s.plan[i%len(s.plan)]
			}
			switch act {
			case "late1", "late2", "late3":
				s.late = append(s.late, estLate{c, i + int(act[4]-'0')})
				s.budget--
			case "now", "served":
				s.budget--
			}
			rest := s.late[:0]
			for _, l := range s.late {
				if l.due <= i && atomic.LoadInt32(&s.quiet) == 0 {
					kill = append(kill, l.c)
				} else {
					rest = append(rest, l)
				}
			}
			s.late = rest
			s.mu.Unlock()
			switch act {
			case "now":
				// the connection dies while the serving peer (and the dialing one) set the session up
				go s.peer.ServeConn(c, s.proto...)
				c.Close()
				atomic.AddInt64(&s.nKilled, 1)
			case "served":
				go func() {
					s.peer.ServeConn(c, s.proto...)
					c.Close()
					atomic.AddInt64(&s.nKilled, 1)
				}()
			default:
				go s.peer.ServeConn(c, s.proto...)
			}
			for _, k := range kill {
				k.Close()
				atomic.AddInt64(&s.nKilled, 1)
			}
		}
	}()
	return ln.Addr().String(), nil
}

func (s *estServer) killAll() {
	s.mu.Lock()
	cs := s.conns
	s.conns = nil
	s.late = nil
	s.mu.Unlock()
	for _, c := range cs {
		c.Close()
	}
}

func (s *estServer) down() {
	s.ln.Close()
	s.wg.Wait()
	s.killAll()
}

type estProg struct {
	Mode  string   // dial | serve
	After []string // one entry per session to establish: what the establishing goroutine does with it afterwards
}

type estCase struct {
	Proto      string // "" = the process default protocol, else raw | json | pb given to Dial / ServeConn
	Redial     int32
	IntervalMs int
	Est        []estProg
	Workers    [][]string
	Plan       []string
	KillBudget int
	// ClientCalls: client-side calls and pushes are among the concurrent operations. Always true
	// without redial. With redial see estRedialClientTraffic.
	ClientCalls bool
}

var estAfter = []string{"leave", "leave", "leave", "yield", "health", "call", "push", "close", "cut"}

var estOps = []string{
	"range-health", "range-health", "range-id", "range-swap", "srange", "get", "count",
	"health", "closenotify", "setid", "swapstore", "swapload", "swaprange",
	"call", "push", "scall", "spush", "close", "sclose",
}

// estRedialClientTraffic: whether redial-enabled cases may have client-side Call / Push among
// their concurrent operations. It is off because the unchanged framework fails there in two ways
// that were reported separately and would otherwise make this check red (or wedge it) on
// correct-as-pinned code:
//
//  1. Data races of the write-path redial (a Call/Push whose write is refused runs the redial
//     closure, which resets the socket): socket.Reset versus socket.Write of another caller that
//     is still inside WriteMessage, and socket.Reset versus socket.RemoteAddr of the session's
//     reading goroutine that is still inside readDisconnected.
//  2. A deadlock (liveness, not a race): Close holds the session lock and waits for the launched
//     call / the push's context, while their refused write waits for the session lock in
//     redialForClient. Hence even when this is switched on, a redial-enabled case has either
//     client-side traffic or client-side closes, never both.
//
// Reader-triggered redials (connection killed by the serving side, graceful close of the serving
// session), enumeration, Health, ID changes, Swap access, Close and the serving side's calls and
// pushes over the client's sessions are not affected and stay in.
// (decided per process: the clause is left out only while the finding is listed as known)
var estRedialClientTraffic = !vt.IsKnown(estRedialSiteKey)

const estRedialSiteKey = "C14:race-site:redial-resets-socket-in-use"

func estWithout(l []string, drop ...string) []string {
	var r []string
	for _, x := range l {
		keep := true
		for _, d := range drop {
			if x == d {
				keep = false
			}
		}
		if keep {
			r = append(r, x)
		}
	}
	return r
}

func genEstCase(t *rapid.T) estCase {
	c := estCase{
		Proto:      rapid.SampledFrom([]string{"", "", "raw", "json", "pb"}).Draw(t, "proto"),
		Redial:     rapid.SampledFrom([]int32{0, 1, 1, 3, 3, -1, -1}).Draw(t, "redial"),
		IntervalMs: rapid.IntRange(1, 3).Draw(t, "intervalms"),
		KillBudget: rapid.SampledFrom([]int{0, 4, 12, 24}).Draw(t, "killbudget"),
	}
	after, ops := estAfter, estOps
	c.ClientCalls = true
	if c.Redial != 0 {
		c.ClientCalls = false
		if estRedialClientTraffic {
			c.ClientCalls = rapid.Bool().Draw(t, "clientcalls")
		}
		drop := []string{"call", "push"}
		if c.ClientCalls {
			drop = []string{"close"}
		}
		after, ops = estWithout(estAfter, drop...), estWithout(estOps, drop...)
	}
	ne := rapid.IntRange(1, 4).Draw(t, "establishers")
	for i := 0; i < ne; i++ {
		p := estProg{Mode: rapid.SampledFrom([]string{"dial", "dial", "dial", "serve"}).Draw(t, "mode")}
		p.After = rapid.SliceOfN(rapid.SampledFrom(after), 2, 10).Draw(t, "after")
		c.Est = append(c.Est, p)
	}
	nw := rapid.IntRange(2, 8).Draw(t, "workers")
	for i := 0; i < nw; i++ {
		c.Workers = append(c.Workers, rapid.SliceOfN(rapid.SampledFrom(ops), 1, 5).Draw(t, "ops"))
	}
	c.Plan = rapid.SliceOfN(rapid.SampledFrom([]string{"keep", "keep", "now", "now", "served", "served", "late1", "late2", "late3"}), 1, 8).Draw(t, "plan")
	return c
}

type estResult struct {
	skip                     string
	established, dialFailed  int64
	before, window, later    int64 // sightings of dialed sessions by age class
	servedEarly              int64 // sightings of sessions created by ServeConn before / right after it returned
	disturbed                int64 // sightings of a session that was not healthy
	redialHooks, kills, accs int64
	workerOps                int64
	notSettled               bool
}

func runEstCase(c estCase) estResult {
	setupOnce.Do(func() {
		vt.Init()
		if os.Getenv("VERIF_C14_LOG") == "info" {
			vt.SetLogLevel(erpc.INFO)
		}
	})
	var res estResult
	w := vt.NewWorld()
	defer w.Close()
	var proto []erpc.ProtoFunc
	if c.Proto != "" {
		proto = []erpc.ProtoFunc{protoByName(vt.StreamProtos(), c.Proto).Fn}
	}
	srv := w.Peer(erpc.PeerConfig{})
	callR, pushR := srv.RouteCallFunc(RaceEcho), srv.RoutePushFunc(RaceNote)
	ts := &estServer{peer: srv, proto: proto, plan: c.Plan, budget: c.KillBudget}
	addr, err := ts.listen()
	if err != nil {
		res.skip = "no loopback listener: " + err.Error()
		return res
	}
	defer ts.down()
	mark := &estMark{base: time.Now()}
	cli := w.Peer(erpc.PeerConfig{RedialTimes: c.Redial, RedialInterval: time.Duration(c.IntervalMs) * time.Millisecond, DialTimeout: 5 * time.Second}, mark)
	cli.RouteCallFunc(RaceEcho)
	cli.RoutePushFunc(RaceNote)

	var (
		stop    int32
		idc     int64
		start   = make(chan struct{})
		ewg     sync.WaitGroup
		wwg     sync.WaitGroup
		mine    = make([][]erpc.Session, len(c.Est))
		pairs   = make([][]*vt.Pair, len(c.Est))
		sighted [6]int64
	)
	see := func(s erpc.Session) {
		atomic.AddInt64(&sighted[mark.age(s)], 1)
	}
	// pick returns one of the sessions the peer currently lists (the k-th of at most 16)
	pick := func(p erpc.Peer, k int) erpc.Session {
		var found [16]erpc.Session
		n := 0
		p.RangeSession(func(s erpc.Session) bool {
			found[n] = s
			n++
			return n < len(found)
		})
		if n == 0 {
			return nil
		}
		s := found[k%n]
		see(s)
		return s
	}

	for ei, ep := range c.Est {
		ewg.Add(1)
		go func(ei int, ep estProg) {
			defer ewg.Done()
			<-start
			for i, after := range ep.After {
				var sess erpc.Session
				var stat *erpc.Status
				var pair *vt.Pair
				if ep.Mode == "dial" {
					sess, stat = cli.Dial(addr, proto...)
				} else {
					pair = vt.NewPair()
					pairs[ei] = append(pairs[ei], pair)
					go srv.ServeConn(pair.B, proto...)
					sess, stat = cli.ServeConn(pair.A, proto...)
				}
				if !stat.OK() || sess == nil {
					atomic.AddInt64(&res.dialFailed, 1)
					continue
				}
				mark.returned(sess)
				atomic.AddInt64(&res.established, 1)
				mine[ei] = append(mine[ei], sess)
				arg := &RArg{S: fmt.Sprintf("e%d-%d", ei, i), N: ei*100 + i + 1}
				switch after {
				case "leave":
					// the session is left to whoever finds it in the index
				case "yield":
					runtime.Gosched()
				case "health":
					sess.Health()
				case "call":
					sess.Call(callR, arg, new(RArg))
				case "push":
					sess.Push(pushR, arg)
				case "close":
					sess.Close()
				case "cut":
					if pair != nil {
						pair.Cut()
					}
				}
			}
		}(ei, ep)
	}
	for wi, ops := range c.Workers {
		wwg.Add(1)
		go func(wi int, ops []string) {
			defer wwg.Done()
			<-start
			lastID := ""
			var n int64
			for round := 0; ; round++ {
				if atomic.LoadInt32(&stop) != 0 && round > 0 {
					break
				}
				for oi, op := range ops {
					k := wi + round + oi
					arg := &RArg{S: fmt.Sprintf("w%d-%d", wi, oi), N: wi*100 + oi + 1}
					n++
					switch op {
					case "range-health":
						cli.RangeSession(func(s erpc.Session) bool {
							see(s)
							if !s.Health() {
								atomic.AddInt64(&res.disturbed, 1)
							}
							return true
						})
					case "range-id":
						cli.RangeSession(func(s erpc.Session) bool {
							see(s)
							lastID = s.ID()
							return true
						})
					case "range-swap":
						cli.RangeSession(func(s erpc.Session) bool {
							see(s)
							s.Swap().Load("h")
							s.Swap().Range(func(k, v interface{}) bool { return true })
							return true
						})
					case "srange":
						srv.RangeSession(func(s erpc.Session) bool {
							s.Health()
							_ = s.ID()
							return true
						})
					case "get":
						if s, ok := cli.GetSession(lastID); ok {
							see(s)
							s.Health()
							_ = s.ID()
						} else if s := pick(cli, k); s != nil {
							lastID = s.ID()
						}
					case "count":
						cli.CountSession()
						srv.CountSession()
					case "health":
						if s := pick(cli, k); s != nil {
							if !s.Health() {
								atomic.AddInt64(&res.disturbed, 1)
							}
						}
					case "closenotify":
						if s := pick(cli, k); s != nil {
							select {
							case <-s.CloseNotify():
							default:
							}
						}
					case "setid":
						if s := pick(cli, k); s != nil {
							s.SetID(fmt.Sprintf("e-%d", atomic.AddInt64(&idc, 1)))
						}
					case "swapstore":
						if s := pick(cli, k); s != nil {
							s.Swap().Store(fmt.Sprintf("k%d", oi%3), wi)
						}
					case "swapload":
						if s := pick(cli, k); s != nil {
							s.Swap().Load(fmt.Sprintf("k%d", oi%3))
						}
					case "swaprange":
						if s := pick(cli, k); s != nil {
							s.Swap().Range(func(k, v interface{}) bool { return true })
						}
					case "call":
						if s := pick(cli, k); s != nil {
							s.Call(callR, arg, new(RArg))
						}
					case "push":
						if s := pick(cli, k); s != nil {
							s.Push(pushR, arg)
						}
					case "scall":
						if s := pick(srv, k); s != nil {
							s.Call(callR, arg, new(RArg))
						}
					case "spush":
						if s := pick(srv, k); s != nil {
							s.Push(pushR, arg)
						}
					case "close":
						// every fourth round only: the others want to find sessions, too
						if round%4 == 0 {
							if s := pick(cli, k); s != nil {
								s.Close()
							}
						}
					case "sclose":
						// the serving side closes the session: for the client a connection loss
						if round%4 == 0 {
							if s := pick(srv, k); s != nil {
								s.Close()
							}
						}
					}
				}
				if round%8 == 7 {
					runtime.Gosched()
				}
			}
			atomic.AddInt64(&res.workerOps, n)
		}(wi, ops)
	}
	close(start)
	await := func(wg *sync.WaitGroup, what string) {
		done := make(chan struct{})
		go func() { wg.Wait(); close(done) }()
		select {
		case <-done:
		case <-time.After(20 * time.Minute):
			// not a verdict (the oracle is the race detector; completion of calls is C02's business)
			fmt.Println("VERIF-INFRA: the " + what + " of a C14 establishment program did not finish within 20 minutes\n" + vt.GoroutineDump())
			os.Exit(3)
		}
	}
	await(&ewg, "establishing goroutines")
	atomic.StoreInt32(&stop, 1)
	await(&wwg, "workers")

	// ---- teardown: no kills any more, the listener stays up so that redials in progress
	// succeed and the re-established sessions can be closed for good
	atomic.StoreInt32(&ts.quiet, 1)
	var all []erpc.Session
	for _, m := range mine {
		all = append(all, m...)
	}
	closeAll := func() {
		var cwg sync.WaitGroup
		for _, s := range all {
			cwg.Add(1)
			go func(s erpc.Session) { defer cwg.Done(); s.Close() }(s)
		}
		cli.RangeSession(func(s erpc.Session) bool {
			cwg.Add(1)
			go func() { defer cwg.Done(); s.Close() }()
			return true
		})
		await(&cwg, "closing of the client sessions")
	}
	deadline := time.Now().Add(vt.LivenessBound)
	settled := false
	for it := 0; !settled && time.Now().Before(deadline); it++ {
		acc := atomic.LoadInt64(&ts.nAccepted)
		closeAll()
		if it >= 1 {
			// sessions that cannot be closed from the client side any more (already passively
			// closed) but still hold a connection
			ts.killAll()
			for _, ps := range pairs {
				for _, p := range ps {
					p.Cut()
				}
			}
		}
		// a session that was about to redial when it was closed comes back as a new connection
		// (the peers' session counts are no help here: sessions that ended while they were being
		// published or renamed may stay listed)
		time.Sleep(time.Duration(2*c.IntervalMs+2) * time.Millisecond)
		settled = it >= 1 && atomic.LoadInt64(&ts.nAccepted) == acc
	}
	res.notSettled = !settled
	if !settled && os.Getenv("C14E_DEBUG") != "" {
		fmt.Printf("NOT SETTLED: cli=%d srv=%d accepted=%d case=%+v\n", cli.CountSession(), srv.CountSession(), atomic.LoadInt64(&ts.nAccepted), c)
		srv.RangeSession(func(s erpc.Session) bool { fmt.Printf("  srv sess %s health=%v\n", s.ID(), s.Health()); return true })
		cli.RangeSession(func(s erpc.Session) bool { fmt.Printf("  cli sess %s health=%v\n", s.ID(), s.Health()); return true })
		fmt.Println(vt.GoroutineDump())
	}
	if os.Getenv("C14E_DEBUG") != "" {
		fmt.Printf("case done: goroutines=%d redialing=%v\n", runtime.NumGoroutine(), strings.Contains(vt.GoroutineDump(), "dialWithRetry"))
	}
	res.before, res.window, res.later = atomic.LoadInt64(&sighted[0]), atomic.LoadInt64(&sighted[1]), atomic.LoadInt64(&sighted[2])
	res.servedEarly = atomic.LoadInt64(&sighted[3]) + atomic.LoadInt64(&sighted[4])
	res.redialHooks = atomic.LoadInt64(&mark.redialHooks)
	res.kills = atomic.LoadInt64(&ts.nKilled)
	res.accs = atomic.LoadInt64(&ts.nAccepted)
	return res
}

func TestC14Establish(t *testing.T) {
	rec := vt.NewRec(t, "C14", "establish", "session establishment inside the concurrent program: a client peer with generated redial configuration (RedialTimes 0 / 1 / 3 / unlimited, RedialInterval 1-3 ms; protocol default / raw / json / pb); 1-4 goroutines keep establishing sessions (peer.Dial over loopback TCP to a harness-owned listener in front of a serving peer, or ServeConn over the in-memory transport), 2-10 sessions each, and then leave / use / close them; the listener treats every accepted connection by a generated plan (keep, kill at once, kill when served, kill 1-3 accepts later; bounded kill budget), so fresh sessions run into disconnect and redial handling at once; meanwhile 2-8 goroutines loop over 1-5 documented-safe operations on whatever sessions the peers currently list (RangeSession with Health / ID / Swap access, GetSession, CountSession, SetID, Swap store/load/range, Health, CloseNotify, Call and Push from the serving side over the sessions it lists, Call and Push from the client side only in cases without redial (with redial they run into separately reported defects of the write-path redial), Close on either side); oracle: the Go race detector (reports parsed by the driver, both accesses in framework code); non-trivial = redial enabled and an enumerating goroutine met a dialed session whose Dial had not returned yet or had returned less than 300us before (measured through a registry filled by the dial/accept hook); distinct by case")
	rapid.Check(t, func(t *rapid.T) {
		c := genEstCase(t)
		r := runEstCase(c)
		if r.skip != "" {
			t.Skip(r.skip)
		}
		early := r.before + r.window
		nontrivial := c.Redial != 0 && early > 0
		classes := []string{
			fmt.Sprintf("redial=%d", c.Redial), "proto=" + c.Proto,
			fmt.Sprintf("met-before-return=%v", r.before > 0), fmt.Sprintf("met-in-window=%v", r.window > 0),
			fmt.Sprintf("redialed=%v", r.redialHooks > 0), fmt.Sprintf("killed=%v", r.kills > 0),
			fmt.Sprintf("met-unhealthy=%v", r.disturbed > 0), fmt.Sprintf("met-served-early=%v", r.servedEarly > 0),
		}
		if r.notSettled {
			classes = append(classes, "teardown-not-settled")
		}
		rec.Case(fmt.Sprintf("%+v", c), nontrivial, classes...)
		for _, e := range c.Est {
			rec.Class("mode="+e.Mode, 1)
		}
		for _, ops := range c.Workers {
			for _, o := range ops {
				rec.Class("op="+o, 1)
			}
		}
		if rec.WantSample() && nontrivial {
			rec.Sample(map[string]interface{}{"case": c, "established": r.established, "dial_failed": r.dialFailed, "accepted": r.accs, "killed": r.kills,
				"redial_hooks": r.redialHooks, "met_before_return": r.before, "met_in_window": r.window, "met_later": r.later, "met_unhealthy": r.disturbed, "worker_ops": r.workerOps})
		}
	})
}
