package thriftw

import (
	"fmt"
	"testing"

	erpc "github.com/henrylee2cn/erpc/v6"
	"github.com/henrylee2cn/erpc/v6/proto/thriftproto"
	"pgregory.net/rapid"

	"verifharness/vt"
)

// C04 over the thrift wire protocols: the status a caller sees is the one of *its* call,
// whatever earlier calls on the same connection ended with.

type t04Op struct {
	Outcome string // ok | err | err2 | notfound | push
	Reverse bool   // issued by the accepting side
	Code    int32
	Msg     string
	Cause   string
	JSON    bool
}

func TC04Do(ctx erpc.CallCtx, a *vt.TStruct) (*vt.TStruct, *erpc.Status) {
	if a.I32 != 0 {
		return nil, erpc.NewStatus(a.I32, a.S, string(a.B))
	}
	return &vt.TStruct{S: "R:" + a.S, I: a.I + 1}, nil
}

func TC04DoJSON(ctx erpc.CallCtx, a *TJ) (*TJ, *erpc.Status) {
	if len(a.S) > 0 && a.S[0] == '!' {
		return nil, erpc.NewStatus(7001, a.S, "json handler refused")
	}
	return &TJ{S: "R:" + a.S}, nil
}

func TC04Push(ctx erpc.PushCtx, a *vt.TStruct) *erpc.Status {
	if a.I32 != 0 {
		return erpc.NewStatus(a.I32, a.S, string(a.B))
	}
	return nil
}

func TestC04ThriftStatus(t *testing.T) {
	rec := vt.NewRec(t, "C04", "thrift-status", "one session speaking thrift-binary or thrift-struct; a sequential history of 2-10 operations in either direction: call answered OK, call failed by its handler with a generated (code, message, cause), call to an unknown route, push (failing or not), thrift-struct or json bodies; oracle: every call's status and result are exactly those of its own handler outcome (OK with the handler's result; the handler's code/message/cause; 404), independent of the operations before it; non-trivial = a failing operation precedes a succeeding call; distinct by history")
	rapid.Check(t, func(t *rapid.T) {
		vt.Init()
		structProto := rapid.Bool().Draw(t, "structproto")
		proto := vt.NamedProto{Name: "thrift-binary", Fn: thriftproto.NewBinaryProtoFunc()}
		if structProto {
			proto = vt.NamedProto{Name: "thrift-struct", Fn: thriftproto.NewStructProtoFunc()}
		}
		n := rapid.IntRange(2, 10).Draw(t, "nops")
		ops := make([]t04Op, n)
		nt, failedBefore := false, false
		for i := range ops {
			o := t04Op{Outcome: rapid.SampledFrom([]string{"ok", "ok", "ok", "err", "err", "notfound", "push"}).Draw(t, "outcome"),
				Reverse: rapid.IntRange(0, 3).Draw(t, "reverse") == 0,
				JSON:    !structProto && rapid.IntRange(0, 3).Draw(t, "json") == 0}
			if o.Outcome == "err" || o.Outcome == "push" {
				o.Code = rapid.SampledFrom([]int32{1, 1001, 4242, 100000, -7, 0}).Draw(t, "code")
				if o.Outcome == "err" && o.Code == 0 {
					o.Code = 9
				}
				o.Msg = rapid.StringMatching(`[a-zA-Z0-9 &=%]{0,20}`).Draw(t, "msg")
				o.Cause = rapid.StringMatching(`[a-zA-Z0-9 &=%]{0,20}`).Draw(t, "cause")
			}
			if o.Outcome == "ok" && failedBefore {
				nt = true
			}
			if o.Outcome == "err" || o.Outcome == "notfound" || (o.Outcome == "push" && o.Code != 0) {
				failedBefore = true
			}
			ops[i] = o
		}
		rec.Case(fmt.Sprintf("%s|%+v", proto.Name, ops), nt, "proto="+proto.Name)
		if rec.WantSample() && nt {
			rec.Sample(map[string]interface{}{"proto": proto.Name, "ops": ops})
		}
		w := vt.NewWorld()
		defer w.Close()
		a, b := w.Peer(erpc.PeerConfig{}), w.Peer(erpc.PeerConfig{})
		var route, routeJ, routeP string
		for _, p := range []erpc.Peer{a, b} {
			route, routeJ, routeP = p.RouteCallFunc(TC04Do), p.RouteCallFunc(TC04DoJSON), p.RoutePushFunc(TC04Push)
		}
		l := w.Connect(a, b, proto, nil)
		if l.A == nil || l.B == nil {
			t.Fatalf("connect failed")
		}
		for i, o := range ops {
			sess := l.A
			if o.Reverse {
				sess = l.B
			}
			tag := fmt.Sprintf("op %d %+v over %s", i, o, proto.Name)
			switch o.Outcome {
			case "push":
				if st := sess.Push(routeP, &vt.TStruct{S: o.Msg, B: []byte(o.Cause), I32: o.Code}); !st.OK() {
					t.Fatalf("%s: push could not be sent: %v", tag, st)
				}
			case "notfound":
				cmd := sess.Call(route+"_nope", &vt.TStruct{S: "x"}, new(vt.TStruct))
				if cmd.Status().Code() != erpc.CodeNotFound {
					t.Fatalf("%s: call to an unknown route completed with %v, want 404", tag, cmd.Status())
				}
			case "err":
				var cmd erpc.CallCmd
				if o.JSON {
					cmd = sess.Call(routeJ, &TJ{S: "!" + o.Msg}, new(TJ), erpc.WithBodyCodec('j'))
					if st := cmd.Status(); st.Code() != 7001 || st.Msg() != "!"+o.Msg || st.Cause() == nil || st.Cause().Error() != "json handler refused" {
						t.Fatalf("%s: caller sees %v, the handler returned (7001, %q, json handler refused)", tag, st, "!"+o.Msg)
					}
					continue
				}
				cmd = sess.Call(route, &vt.TStruct{S: o.Msg, B: []byte(o.Cause), I32: o.Code}, new(vt.TStruct))
				st := cmd.Status()
				want := erpc.NewStatus(o.Code, o.Msg, o.Cause) // what the handler built (NewStatus normalises empty messages)
				causeOf := func(x *erpc.Status) string {
					if x.Cause() == nil {
						return ""
					}
					return x.Cause().Error()
				}
				if st.Code() != want.Code() || st.Msg() != want.Msg() || causeOf(st) != causeOf(want) {
					t.Fatalf("%s: caller sees (%d, %q, %q), the handler returned (%d, %q, %q)", tag, st.Code(), st.Msg(), causeOf(st), want.Code(), want.Msg(), causeOf(want))
				}
			default:
				if o.JSON {
					res := new(TJ)
					cmd := sess.Call(routeJ, &TJ{S: fmt.Sprintf("j%d", i)}, res, erpc.WithBodyCodec('j'))
					if !cmd.StatusOK() || res.S != fmt.Sprintf("R:j%d", i) {
						t.Fatalf("%s: the handler succeeded but the caller sees status %v, result %q", tag, cmd.Status(), res.S)
					}
					continue
				}
				res := new(vt.TStruct)
				cmd := sess.Call(route, &vt.TStruct{S: fmt.Sprintf("s%d", i), I: int64(i)}, res)
				if !cmd.StatusOK() || res.S != fmt.Sprintf("R:s%d", i) || res.I != int64(i)+1 {
					t.Fatalf("%s: the handler succeeded but the caller sees status %v, result %v", tag, cmd.Status(), res)
				}
			}
		}
	})
}
