package thriftw

import (
	"fmt"
	"hash/crc32"
	"runtime"
	"strconv"
	"strings"
	"sync"
	"sync/atomic"
	"testing"

	erpc "github.com/henrylee2cn/erpc/v6"
	"github.com/henrylee2cn/erpc/v6/proto/thriftproto"
	"pgregory.net/rapid"

	"verifharness/vt"
)

// Cross-talk over sessions that speak the thrift wire protocols (C01, thrift part).

type TJ struct{ S string }

type tstate struct {
	mu     sync.Mutex
	errs   []string
	pushes map[string]int
	infl   int32
	max    int32
}

var tcur atomic.Value

func (s *tstate) fail(f string, a ...interface{}) {
	s.mu.Lock()
	if len(s.errs) < 8 {
		s.errs = append(s.errs, fmt.Sprintf(f, a...))
	}
	s.mu.Unlock()
}

func mkB(tok, pay string) string {
	return tok + "|" + strconv.FormatUint(uint64(crc32.ChecksumIEEE([]byte(pay))), 16) + "|" + pay
}

func chkB(s string) (string, bool) {
	p := strings.SplitN(s, "|", 3)
	if len(p) != 3 {
		return "", false
	}
	sum, err := strconv.ParseUint(p[1], 16, 32)
	return p[0], err == nil && uint32(sum) == crc32.ChecksumIEEE([]byte(p[2]))
}

type metaCtx interface{ PeekMeta(string) []byte }

func common(kind string, ctx metaCtx, get func() string) string {
	s := tcur.Load().(*tstate)
	n := atomic.AddInt32(&s.infl, 1)
	defer atomic.AddInt32(&s.infl, -1)
	for {
		m := atomic.LoadInt32(&s.max)
		if n <= m || atomic.CompareAndSwapInt32(&s.max, m, n) {
			break
		}
	}
	arg := get()
	mt := string(ctx.PeekMeta("tok"))
	tok, ok := chkB(arg)
	if !ok {
		s.fail("%s: malformed or corrupted body %s", kind, vt.Trunc(arg))
	} else if tok != mt {
		s.fail("%s: body token %q but metadata token %q", kind, tok, mt)
	}
	runtime.Gosched()
	if again := get(); again != arg {
		s.fail("%s: argument changed while the handler ran", kind)
	}
	return "R<" + arg + ">" + mt
}

func TC01Struct(ctx erpc.CallCtx, a *vt.TStruct) (*vt.TStruct, *erpc.Status) {
	r := common("call(tstruct)", ctx, func() string { return a.S })
	ctx.SetMeta("tok", string(ctx.PeekMeta("tok")))
	return &vt.TStruct{S: r, I: a.I}, nil
}
func TC01Json(ctx erpc.CallCtx, a *TJ) (*TJ, *erpc.Status) {
	r := common("call(json)", ctx, func() string { return a.S })
	ctx.SetMeta("tok", string(ctx.PeekMeta("tok")))
	return &TJ{S: r}, nil
}
func TC01PushStruct(ctx erpc.PushCtx, a *vt.TStruct) *erpc.Status {
	common("push(tstruct)", ctx, func() string { return a.S })
	s := tcur.Load().(*tstate)
	tok, _ := chkB(a.S)
	s.mu.Lock()
	s.pushes[tok]++
	s.mu.Unlock()
	return nil
}

type top struct {
	Kind string // call | async | push
	JSON bool
	Len  int
}

func TestC01ThriftSessions(t *testing.T) {
	rec := vt.NewRec(t, "C01", "thrift-sessions", "cross-talk over sessions speaking thrift-binary (thrift struct and json bodies) and thrift-struct (thrift struct bodies): 1-2 sessions, 1-6 workers x 1-10 Call/AsyncCall/Push ops in either direction with self-authenticating bodies (token in body and metadata, payload checksum), payload lengths 0..5000, generated read chunking; non-trivial = >=2 overlapping handler executions (measured); distinct by program")
	rapid.Check(t, func(t *rapid.T) {
		vt.Init()
		structProto := rapid.Bool().Draw(t, "structproto")
		proto := vt.NamedProto{Name: "thrift-binary", Fn: thriftproto.NewBinaryProtoFunc()}
		if structProto {
			proto = vt.NamedProto{Name: "thrift-struct", Fn: thriftproto.NewStructProtoFunc()}
		}
		nsess := rapid.IntRange(1, 2).Draw(t, "sessions")
		nw := rapid.IntRange(1, 6).Draw(t, "workers")
		progs := make([][]top, nw)
		for i := range progs {
			n := rapid.IntRange(1, 10).Draw(t, "nops")
			for j := 0; j < n; j++ {
				progs[i] = append(progs[i], top{Kind: rapid.SampledFrom([]string{"call", "call", "async", "push"}).Draw(t, "kind"),
					JSON: !structProto && rapid.Bool().Draw(t, "json"), Len: rapid.SampledFrom([]int{0, 1, 40, 1023, 1025, 5000}).Draw(t, "len")})
			}
		}
		chunks, cycle := vt.Chunks(t, "chunks")
		st := &tstate{pushes: map[string]int{}}
		tcur.Store(st)
		w := vt.NewWorld()
		a, b := w.Peer(erpc.PeerConfig{}), w.Peer(erpc.PeerConfig{})
		type rt struct{ cs, cj, ps string }
		reg := func(p erpc.Peer) rt {
			return rt{p.RouteCallFunc(TC01Struct), p.RouteCallFunc(TC01Json), p.RoutePushFunc(TC01PushStruct)}
		}
		ra, rb := reg(a), reg(b)
		var links []*vt.Link
		for i := 0; i < nsess; i++ {
			l := w.Connect(a, b, proto, func(p *vt.Pair) { p.SetChunks(vt.AtoB, chunks, cycle); p.SetChunks(vt.BtoA, chunks, cycle) })
			if l.A == nil || l.B == nil {
				t.Fatalf("connect failed: %v %v", l.AStat, l.BStat)
			}
			links = append(links, l)
		}
		var wg sync.WaitGroup
		var sent sync.Map
		for wi, ops := range progs {
			wg.Add(1)
			go func(wi int, ops []top) {
				defer wg.Done()
				l := links[wi%nsess]
				sess, r := l.A, rb
				if wi%2 == 1 {
					sess, r = l.B, ra
				}
				ch := make(chan erpc.CallCmd, len(ops)+1)
				type pend struct {
					cmd  erpc.CallCmd
					body string
					tok  string
					get  func() string
				}
				var ps []pend
				verify := func(p pend) {
					<-p.cmd.Done()
					if !p.cmd.StatusOK() {
						st.fail("call %s failed: %v", p.tok, p.cmd.Status())
						return
					}
					if got, want := p.get(), "R<"+p.body+">"+p.tok; got != want {
						st.fail("call %s: result is not the reply to this call: got %s want %s", p.tok, vt.Trunc(got), vt.Trunc(want))
					}
					if mt := string(p.cmd.InputMeta().Peek("tok")); mt != p.tok {
						st.fail("call %s: reply metadata token %q", p.tok, mt)
					}
				}
				for oi, op := range ops {
					tok := fmt.Sprintf("w%do%d", wi, oi)
					body := mkB(tok, strings.Repeat("p", op.Len))
					set := []erpc.MessageSetting{erpc.WithAddMeta("tok", tok)}
					var arg interface{}
					var get func() string
					var res interface{}
					route := r.cs
					if op.JSON {
						set = append(set, erpc.WithBodyCodec('j'))
						arg, route = &TJ{S: body}, r.cj
						x := new(TJ)
						res, get = x, func() string { return x.S }
					} else {
						set = append(set, erpc.WithBodyCodec('t'))
						arg = &vt.TStruct{S: body, I: int64(oi)}
						x := new(vt.TStruct)
						res, get = x, func() string { return x.S }
					}
					switch op.Kind {
					case "call":
						verify(pend{sess.Call(route, arg, res, set...), body, tok, get})
					case "async":
						ps = append(ps, pend{sess.AsyncCall(route, arg, res, ch, set...), body, tok, get})
					default:
						sent.Store(tok, true)
						if stat := sess.Push(r.ps, &vt.TStruct{S: body}, erpc.WithAddMeta("tok", tok), erpc.WithBodyCodec('t')); !stat.OK() {
							st.fail("push %s failed: %v", tok, stat)
						}
					}
				}
				for _, p := range ps {
					verify(p)
				}
			}(wi, ops)
		}
		done := make(chan struct{})
		go func() { wg.Wait(); close(done) }()
		if !vt.WaitClosed(done) {
			t.Fatalf("%s", vt.Hang("completion of all calls over thrift sessions"))
		}
		nsent := 0
		sent.Range(func(k, v interface{}) bool { nsent++; return true })
		vt.WaitUntil(func() bool { st.mu.Lock(); defer st.mu.Unlock(); return len(st.pushes) >= nsent })
		w.Close()
		st.mu.Lock()
		for tok, n := range st.pushes {
			if n > 1 {
				st.errs = append(st.errs, fmt.Sprintf("push %s received %d times", tok, n))
			}
		}
		if len(st.pushes) != nsent {
			st.errs = append(st.errs, fmt.Sprintf("%d pushes sent, %d received", nsent, len(st.pushes)))
		}
		errs := append([]string(nil), st.errs...)
		st.mu.Unlock()
		max := atomic.LoadInt32(&st.max)
		rec.Case(fmt.Sprintf("%s|%d|%v|%v", proto.Name, nsess, progs, chunks), max >= 2, "proto="+proto.Name)
		if rec.WantSample() && max >= 2 {
			rec.Sample(map[string]interface{}{"proto": proto.Name, "sessions": nsess, "workers": nw, "first_worker": progs[0], "max_overlapping_handlers": max})
		}
		if len(errs) > 0 {
			t.Fatalf("C01 violated over %s: %s", proto.Name, errs[0])
		}
	})
}
