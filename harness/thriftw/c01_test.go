package thriftw

import (
	"bytes"
	"fmt"
	"hash/crc32"
	"runtime"
	"strconv"
	"strings"
	"sync"
	"sync/atomic"
	"testing"
	"time"

	erpc "github.com/henrylee2cn/erpc/v6"
	"github.com/henrylee2cn/erpc/v6/proto/thriftproto"
	"github.com/henrylee2cn/erpc/v6/socket"
	"pgregory.net/rapid"

	"verifharness/vt"
)

// Cross-talk over sessions that speak the thrift wire protocols (C01, thrift part).

type TJ struct{ S string }

type tstate struct {
	mu     sync.Mutex
	errs   []string
	pushes map[string]int
	infl   int32
	max    int32
}

var tcur atomic.Value

func (s *tstate) fail(f string, a ...interface{}) {
	s.mu.Lock()
	if len(s.errs) < 8 {
		s.errs = append(s.errs, fmt.Sprintf(f, a...))
	}
	s.mu.Unlock()
}

func mkB(tok, pay string) string {
	return tok + "|" + strconv.FormatUint(uint64(crc32.ChecksumIEEE([]byte(pay))), 16) + "|" + pay
}

func chkB(s string) (string, bool) {
	p := strings.SplitN(s, "|", 3)
	if len(p) != 3 {
		return "", false
	}
	sum, err := strconv.ParseUint(p[1], 16, 32)
	return p[0], err == nil && uint32(sum) == crc32.ChecksumIEEE([]byte(p[2]))
}

type metaCtx interface{ PeekMeta(string) []byte }

func common(kind string, ctx metaCtx, get func() string) string {
	s := tcur.Load().(*tstate)
	n := atomic.AddInt32(&s.infl, 1)
	defer atomic.AddInt32(&s.infl, -1)
	for {
		m := atomic.LoadInt32(&s.max)
		if n <= m || atomic.CompareAndSwapInt32(&s.max, m, n) {
			break
		}
	}
	arg := get()
	mt := string(ctx.PeekMeta("tok"))
	tok, ok := chkB(arg)
	if !ok {
		s.fail("%s: malformed or corrupted body %s", kind, vt.Trunc(arg))
	} else if tok != mt {
		s.fail("%s: body token %q but metadata token %q", kind, tok, mt)
	}
	runtime.Gosched()
	if again := get(); again != arg {
		s.fail("%s: argument changed while the handler ran", kind)
	}
	return "R<" + arg + ">" + mt
}

func TC01Struct(ctx erpc.CallCtx, a *vt.TStruct) (*vt.TStruct, *erpc.Status) {
	r := common("call(tstruct)", ctx, func() string { return a.S })
	ctx.SetMeta("tok", string(ctx.PeekMeta("tok")))
	return &vt.TStruct{S: r, I: a.I}, nil
}
func TC01Json(ctx erpc.CallCtx, a *TJ) (*TJ, *erpc.Status) {
	r := common("call(json)", ctx, func() string { return a.S })
	ctx.SetMeta("tok", string(ctx.PeekMeta("tok")))
	return &TJ{S: r}, nil
}
func TC01PushStruct(ctx erpc.PushCtx, a *vt.TStruct) *erpc.Status {
	common("push(tstruct)", ctx, func() string { return a.S })
	s := tcur.Load().(*tstate)
	tok, _ := chkB(a.S)
	s.mu.Lock()
	s.pushes[tok]++
	s.mu.Unlock()
	return nil
}

type top struct {
	Kind string // call | async | push
	JSON bool
	Len  int
}

func TestC01ThriftSessions(t *testing.T) {
	rec := vt.NewRec(t, "C01", "thrift-sessions", "cross-talk over sessions speaking thrift-binary (thrift struct and json bodies) and thrift-struct (thrift struct bodies): 1-2 sessions, 1-6 workers x 1-10 Call/AsyncCall/Push ops in either direction with self-authenticating bodies (token in body and metadata, payload checksum), payload lengths 0..5000, generated read chunking; non-trivial = >=2 overlapping handler executions (measured); distinct by program")
	rapid.Check(t, func(t *rapid.T) {
		vt.Init()
		structProto := rapid.Bool().Draw(t, "structproto")
		proto := vt.NamedProto{Name: "thrift-binary", Fn: thriftproto.NewBinaryProtoFunc()}
		if structProto {
			proto = vt.NamedProto{Name: "thrift-struct", Fn: thriftproto.NewStructProtoFunc()}
		}
		nsess := rapid.IntRange(1, 2).Draw(t, "sessions")
		nw := rapid.IntRange(1, 6).Draw(t, "workers")
		progs := make([][]top, nw)
		for i := range progs {
			n := rapid.IntRange(1, 10).Draw(t, "nops")
			for j := 0; j < n; j++ {
				progs[i] = append(progs[i], top{Kind: rapid.SampledFrom([]string{"call", "call", "async", "push"}).Draw(t, "kind"),
					JSON: !structProto && rapid.Bool().Draw(t, "json"), Len: rapid.SampledFrom([]int{0, 1, 40, 1023, 1025, 5000}).Draw(t, "len")})
			}
		}
		chunks, cycle := vt.Chunks(t, "chunks")
		st := &tstate{pushes: map[string]int{}}
		tcur.Store(st)
		w := vt.NewWorld()
		a, b := w.Peer(erpc.PeerConfig{}), w.Peer(erpc.PeerConfig{})
		type rt struct{ cs, cj, ps string }
		reg := func(p erpc.Peer) rt {
			return rt{p.RouteCallFunc(TC01Struct), p.RouteCallFunc(TC01Json), p.RoutePushFunc(TC01PushStruct)}
		}
		ra, rb := reg(a), reg(b)
		var links []*vt.Link
		for i := 0; i < nsess; i++ {
			l := w.Connect(a, b, proto, func(p *vt.Pair) { p.SetChunks(vt.AtoB, chunks, cycle); p.SetChunks(vt.BtoA, chunks, cycle) })
			if l.A == nil || l.B == nil {
				t.Fatalf("connect failed: %v %v", l.AStat, l.BStat)
			}
			links = append(links, l)
		}
		var wg sync.WaitGroup
		var sent sync.Map
		for wi, ops := range progs {
			wg.Add(1)
			go func(wi int, ops []top) {
				defer wg.Done()
				l := links[wi%nsess]
				sess, r := l.A, rb
				if wi%2 == 1 {
					sess, r = l.B, ra
				}
				ch := make(chan erpc.CallCmd, len(ops)+1)
				type pend struct {
					cmd  erpc.CallCmd
					body string
					tok  string
					get  func() string
				}
				var ps []pend
				verify := func(p pend) {
					<-p.cmd.Done()
					if !p.cmd.StatusOK() {
						st.fail("call %s failed: %v", p.tok, p.cmd.Status())
						return
					}
					if got, want := p.get(), "R<"+p.body+">"+p.tok; got != want {
						st.fail("call %s: result is not the reply to this call: got %s want %s", p.tok, vt.Trunc(got), vt.Trunc(want))
					}
					if mt := string(p.cmd.InputMeta().Peek("tok")); mt != p.tok {
						st.fail("call %s: reply metadata token %q", p.tok, mt)
					}
				}
				for oi, op := range ops {
					tok := fmt.Sprintf("w%do%d", wi, oi)
					body := mkB(tok, strings.Repeat("p", op.Len))
					set := []erpc.MessageSetting{erpc.WithAddMeta("tok", tok)}
					var arg interface{}
					var get func() string
					var res interface{}
					route := r.cs
					if op.JSON {
						set = append(set, erpc.WithBodyCodec('j'))
						arg, route = &TJ{S: body}, r.cj
						x := new(TJ)
						res, get = x, func() string { return x.S }
					} else {
						set = append(set, erpc.WithBodyCodec('t'))
						arg = &vt.TStruct{S: body, I: int64(oi)}
						x := new(vt.TStruct)
						res, get = x, func() string { return x.S }
					}
					switch op.Kind {
					case "call":
						verify(pend{sess.Call(route, arg, res, set...), body, tok, get})
					case "async":
						ps = append(ps, pend{sess.AsyncCall(route, arg, res, ch, set...), body, tok, get})
					default:
						sent.Store(tok, true)
						if stat := sess.Push(r.ps, &vt.TStruct{S: body}, erpc.WithAddMeta("tok", tok), erpc.WithBodyCodec('t')); !stat.OK() {
							st.fail("push %s failed: %v", tok, stat)
						}
					}
				}
				for _, p := range ps {
					verify(p)
				}
			}(wi, ops)
		}
		done := make(chan struct{})
		go func() { wg.Wait(); close(done) }()
		if !vt.WaitClosed(done) {
			t.Fatalf("%s", vt.Hang("completion of all calls over thrift sessions"))
		}
		nsent := 0
		sent.Range(func(k, v interface{}) bool { nsent++; return true })
		vt.WaitUntil(func() bool { st.mu.Lock(); defer st.mu.Unlock(); return len(st.pushes) >= nsent })
		w.Close()
		st.mu.Lock()
		for tok, n := range st.pushes {
			if n > 1 {
				st.errs = append(st.errs, fmt.Sprintf("push %s received %d times", tok, n))
			}
		}
		if len(st.pushes) != nsent {
			st.errs = append(st.errs, fmt.Sprintf("%d pushes sent, %d received", nsent, len(st.pushes)))
		}
		errs := append([]string(nil), st.errs...)
		st.mu.Unlock()
		max := atomic.LoadInt32(&st.max)
		rec.Case(fmt.Sprintf("%s|%d|%v|%v", proto.Name, nsess, progs, chunks), max >= 2, "proto="+proto.Name)
		if rec.WantSample() && max >= 2 {
			rec.Sample(map[string]interface{}{"proto": proto.Name, "sessions": nsess, "workers": nw, "first_worker": progs[0], "max_overlapping_handlers": max})
		}
		if len(errs) > 0 {
			t.Fatalf("C01 violated over %s: %s", proto.Name, errs[0])
		}
	})
}

// TestC20FailedSends: a message that could not be sent (here: over the configured size limit)
// leaves nothing behind in the session's send path - whatever the protocol buffers per
// connection (the websocket mixer's frame buffer, the thrift header transport) is as clean for
// the next message as on a fresh session.
func TestC20FailedSends(t *testing.T) {
	rec := vt.NewRec(t, "C20", "failed-sends", "one session over thrift-binary / thrift-struct, directly or as sub-protocol of the websocket mixer, under an 8 KiB message size limit; 3-8 sequential calls of which some carry a 16 KiB argument (refused locally or by the receiver) or ask for a 16 KiB result (the reply is refused on the serving side); oracle: every ordinary call after a refused one completes OK with its own result on the same session (or the session was closed by the refusal and a new session works); non-trivial = an ordinary call follows a refused one; distinct by case")
	rapid.Check(t, func(t *rapid.T) {
		vt.Init()
		structProto := rapid.Bool().Draw(t, "structproto")
		overWS := rapid.Bool().Draw(t, "websocket")
		proto := vt.NamedProto{Name: "thrift-binary", Fn: thriftproto.NewBinaryProtoFunc()}
		if structProto {
			proto = vt.NamedProto{Name: "thrift-struct", Fn: thriftproto.NewStructProtoFunc()}
		}
		n := rapid.IntRange(3, 8).Draw(t, "ops")
		ops := make([]string, n)
		nt, sawBig := false, false
		for i := range ops {
			ops[i] = rapid.SampledFrom([]string{"ok", "ok", "bigarg", "bigresult"}).Draw(t, "op")
			if ops[i] == "ok" && sawBig {
				nt = true
			}
			if ops[i] != "ok" {
				sawBig = true
			}
		}
		rec.Case(fmt.Sprintf("%s|%v|%v", proto.Name, overWS, ops), nt, "proto="+proto.Name, fmt.Sprintf("websocket=%v", overWS))
		if rec.WantSample() && nt {
			rec.Sample(map[string]interface{}{"proto": proto.Name, "websocket": overWS, "ops": ops})
		}
		st := &tstate{pushes: map[string]int{}}
		tcur.Store(st)
		socket.SetMessageSizeLimit(8 << 10)
		defer socket.SetMessageSizeLimit(0)
		w := vt.NewWorld()
		defer w.Close()
		a, b := w.Peer(erpc.PeerConfig{}), w.Peer(erpc.PeerConfig{})
		route := b.RouteCallFunc(TC20Echo)
		connect := func() *vt.Link {
			if overWS {
				l, err := w.ConnectWS(a, b, proto, nil)
				if err != nil {
					t.Fatalf("websocket connect: %v", err)
				}
				return l
			}
			return w.Connect(a, b, proto, nil)
		}
		l := connect()
		if l.A == nil || l.B == nil {
			t.Fatalf("connect failed")
		}
		afterRefusal := false
		for i, op := range ops {
			arg := &vt.TStruct{S: fmt.Sprintf("a%d", i), I: int64(i)}
			switch op {
			case "bigarg":
				arg.B = bytes.Repeat([]byte{'x'}, 16<<10)
			case "bigresult":
				arg.I32 = 16 << 10
			}
			res := new(vt.TStruct)
			var cmd erpc.CallCmd
			if !vt.Returns(func() { cmd = l.A.Call(route, arg, res) }) {
				t.Fatalf("%s", vt.Hang(fmt.Sprintf("return of call %d (%s)", i, op)))
			}
			if op != "ok" {
				afterRefusal = true
				if cmd.StatusOK() {
					t.Fatalf("harness: call %d (%s) was expected to be refused under the 8 KiB limit", i, op)
				}
				continue
			}
			// Directly over a thrift protocol the over-limit frame has already been flushed to the
			// connection when the size check refuses it, so the receiver ends the session. Under the
			// websocket mixer the sub-protocol packs into the connection's frame buffer, and a refused
			// message is never transmitted: the session goes on.
			if !cmd.StatusOK() && afterRefusal && !overWS && vt.WaitUntilFor(2*time.Second, func() bool { return !l.A.Health() }) {
				// the refusal ended the session (e.g. the receiver disconnects on an over-limit frame): a new one works
				l = connect()
				if l.A == nil || l.B == nil {
					t.Fatalf("re-connect failed")
				}
				afterRefusal = false
				res = new(vt.TStruct)
				cmd = l.A.Call(route, arg, res)
			}
			if !cmd.StatusOK() || res.S != "R:"+arg.S || res.I != arg.I+1 {
				t.Fatalf("C20 violated: %s (websocket: %v): ordinary call %d after ops %v completed with %v / result %v (session healthy: %v) - an earlier refused message left something behind", proto.Name, overWS, i, ops[:i], cmd.Status(), res, l.A.Health())
			}
		}
	})
}

// TC20Echo echoes, optionally with a result of the requested size.
func TC20Echo(ctx erpc.CallCtx, a *vt.TStruct) (*vt.TStruct, *erpc.Status) {
	r := &vt.TStruct{S: "R:" + a.S, I: a.I + 1}
	if a.I32 > 0 {
		r.B = bytes.Repeat([]byte{'y'}, int(a.I32))
	}
	return r, nil
}
