// Package thriftw holds every check that needs the thrift wire protocols.
// Importing proto/thriftproto switches process-global state (service method
// mapper, default body codec), so these checks live in their own binary.
package thriftw

import (
	"testing"

	erpc "github.com/henrylee2cn/erpc/v6"
	"github.com/henrylee2cn/erpc/v6/codec"
	"github.com/henrylee2cn/erpc/v6/proto/thriftproto"
	"github.com/henrylee2cn/erpc/v6/socket"
	"pgregory.net/rapid"

	"verifharness/vt"
)

// thrift-binary: type in {CALL, REPLY, PUSH} (others are documented to
// degrade to PUSH), method is a thrift string, the body codec id travels as a
// one-character header (ids below 0x80), any registered pipe.
func specThriftBinary() vt.ProtoSpec {
	base := vt.GenRawLike(vt.MethodUTF8, vt.AnyText, nil)
	return vt.ProtoSpec{
		Name: "thrift-binary",
		Fn:   thriftproto.NewBinaryProtoFunc,
		Gen: func(t *rapid.T, rec *vt.Rec) vt.Msg {
			m := base(t, rec)
			m.Mtype = rapid.SampledFrom([]byte{erpc.TypeCall, erpc.TypeReply, erpc.TypePush}).Draw(t, "mtype3")
			m.Codec = rapid.SampledFrom([]byte{'j', 'p', 'f', 's', 'x', 't', 1, 0x7f}).Draw(t, "codecascii")
			return m
		},
		Cmp: func(vt.Msg) vt.CompareOpts { return vt.CompareOpts{} },
	}
}

func genTStruct(t *rapid.T) *vt.TStruct {
	return &vt.TStruct{
		S:   vt.ValidUTF8(t, "ts.s", 300),
		I:   rapid.Int64().Draw(t, "ts.i"),
		B:   vt.Bytes(t, "ts.b", 2000),
		Ok:  rapid.Bool().Draw(t, "ts.ok"),
		L:   rapid.SliceOfN(rapid.StringN(0, 20, 40), 0, 5).Draw(t, "ts.l"),
		D:   rapid.Float64().Draw(t, "ts.d"),
		I32: rapid.Int32().Draw(t, "ts.i32"),
	}
}

// thrift-struct: the body is a thrift struct written directly, codec thrift,
// no pipe; metadata and status travel as headers.
func specThriftStruct() vt.ProtoSpec {
	return vt.ProtoSpec{
		Name: "thrift-struct",
		Fn:   thriftproto.NewStructProtoFunc,
		Gen: func(t *rapid.T, rec *vt.Rec) vt.Msg {
			var m vt.Msg
			m.Seq = vt.Seq(t, "seq")
			m.Mtype = rapid.SampledFrom([]byte{erpc.TypeCall, erpc.TypeReply, erpc.TypePush}).Draw(t, "mtype3")
			m.Method = vt.MethodUTF8(t)
			vt.GenStatus(t, &m, 600, vt.AnyText)
			m.Meta = vt.Meta(t, "meta", 6, 300)
			m.Codec = codec.ID_THRIFT
			b, err := codec.ThriftMarshal(genTStruct(t))
			if err != nil {
				t.Fatalf("marshal: %v", err)
			}
			m.Body = b
			return m
		},
		Cmp: func(vt.Msg) vt.CompareOpts { return vt.CompareOpts{} },
		Build: func(m vt.Msg) socket.Message {
			body := m.Body
			m.Body = nil
			out := m.Build()
			ts := new(vt.TStruct)
			if err := codec.ThriftUnmarshal(body, ts); err != nil {
				panic(err)
			}
			out.SetBody(ts)
			return out
		},
		Receiver: func() socket.Message {
			return socket.NewMessage(socket.WithNewBody(func(socket.Header) interface{} { return new(vt.TStruct) }))
		},
		BodyOf: func(got socket.Message) []byte {
			b, err := codec.ThriftMarshal(got.Body())
			if err != nil {
				return []byte("marshal error: " + err.Error())
			}
			return b
		},
	}
}

func TestC05ThriftBinary(t *testing.T) { vt.RunSpec(t, specThriftBinary()) }
func TestC05ThriftStruct(t *testing.T) { vt.RunSpec(t, specThriftStruct()) }
