// Package thriftw holds every check that needs the thrift wire protocols.
// Importing proto/thriftproto switches process-global state (service method
// mapper, default body codec), so these checks live in their own binary.
package thriftw

import (
	"bytes"
	"fmt"
	"testing"

	erpc "github.com/henrylee2cn/erpc/v6"
	"github.com/henrylee2cn/erpc/v6/codec"
	"github.com/henrylee2cn/erpc/v6/proto/thriftproto"
	"github.com/henrylee2cn/erpc/v6/socket"
	"pgregory.net/rapid"

	"verifharness/vt"
)

// thrift-binary: type in {CALL, REPLY, PUSH} (others are documented to
// degrade to PUSH), method is a thrift string, the body codec id travels as a
// one-character header (ids below 0x80), any registered pipe.
func specThriftBinary() vt.ProtoSpec {
	base := vt.GenRawLike(vt.MethodUTF8, vt.AnyText, nil)
	return vt.ProtoSpec{
		Name:           "thrift-binary",
		SizePrefixed:   true,
		AnnounceExempt: thriftUnframed,
		AllocKnownKey:  keyThriftAlloc,
		Fn:             thriftproto.NewBinaryProtoFunc,
		Gen: func(t *rapid.T, rec *vt.Rec) vt.Msg {
			m := base(t, rec)
			m.Mtype = rapid.SampledFrom([]byte{erpc.TypeCall, erpc.TypeReply, erpc.TypePush}).Draw(t, "mtype3")
			m.Codec = rapid.SampledFrom([]byte{'j', 'p', 'f', 's', 'x', 't', 1, 0x7f}).Draw(t, "codecascii")
			return m
		},
		Cmp: func(vt.Msg) vt.CompareOpts { return vt.CompareOpts{} },
	}
}

func genTStruct(t *rapid.T) *vt.TStruct {
	return &vt.TStruct{
		S:   vt.ValidUTF8(t, "ts.s", 300),
		I:   rapid.Int64().Draw(t, "ts.i"),
		B:   vt.Bytes(t, "ts.b", 2000),
		Ok:  rapid.Bool().Draw(t, "ts.ok"),
		L:   rapid.SliceOfN(rapid.StringN(0, 20, 40), 0, 5).Draw(t, "ts.l"),
		D:   rapid.Float64().Draw(t, "ts.d"),
		I32: rapid.Int32().Draw(t, "ts.i32"),
	}
}

// thrift-struct: the body is a thrift struct written directly, codec thrift,
// no pipe; metadata and status travel as headers.
func specThriftStruct() vt.ProtoSpec {
	return vt.ProtoSpec{
		Name:           "thrift-struct",
		SizePrefixed:   true,
		AnnounceExempt: thriftUnframed,
		AllocKnownKey:  keyThriftAlloc,
		Fn:             thriftproto.NewStructProtoFunc,
		Gen: func(t *rapid.T, rec *vt.Rec) vt.Msg {
			var m vt.Msg
			m.Seq = vt.Seq(t, "seq")
			m.Mtype = rapid.SampledFrom([]byte{erpc.TypeCall, erpc.TypeReply, erpc.TypePush}).Draw(t, "mtype3")
			m.Method = vt.MethodUTF8(t)
			vt.GenStatus(t, &m, 600, vt.AnyText)
			m.Meta = vt.Meta(t, "meta", 6, 300)
			m.Codec = codec.ID_THRIFT
			b, err := codec.ThriftMarshal(genTStruct(t))
			if err != nil {
				t.Fatalf("marshal: %v", err)
			}
			m.Body = b
			return m
		},
		Cmp: func(vt.Msg) vt.CompareOpts { return vt.CompareOpts{} },
		Build: func(m vt.Msg) socket.Message {
			body := m.Body
			m.Body = nil
			out := m.Build()
			ts := new(vt.TStruct)
			if err := codec.ThriftUnmarshal(body, ts); err != nil {
				panic(err)
			}
			out.SetBody(ts)
			return out
		},
		Receiver: func() socket.Message {
			return socket.NewMessage(socket.WithNewBody(func(socket.Header) interface{} { return new(vt.TStruct) }))
		},
		BodyObj: func() interface{} { return new(vt.TStruct) },
		BodyOf: func(got socket.Message) []byte {
			b, err := codec.ThriftMarshal(got.Body())
			if err != nil {
				return []byte("marshal error: " + err.Error())
			}
			return b
		},
	}
}

func TestC05ThriftBinary(t *testing.T) { vt.RunSpec(t, specThriftBinary()) }
func TestC05ThriftStruct(t *testing.T) { vt.RunSpec(t, specThriftStruct()) }

// thriftUnframed: a 4-byte prefix that the thrift header transport takes for
// the start of an unframed binary/compact message rather than a frame size.
func thriftUnframed(prefix uint32) bool {
	return prefix&0xffff0000 == 0x80010000 || byte(prefix>>24) == 0x82 && byte(prefix>>16)&0x1f == 1
}

func TestC06ThriftBinaryUnpack(t *testing.T) { vt.RunHostileProto(t, specThriftBinary()) }
func TestC06ThriftStructUnpack(t *testing.T) { vt.RunHostileProto(t, specThriftStruct()) }

const keyThriftAlloc = "C06:thrift:library-allocates-announced-sizes"

// TestC06ThriftKnownProbes re-checks the listed known findings of the thrift protocols.
func TestC06ThriftKnownProbes(t *testing.T) {
	rec := vt.NewRec(t, "C06", "thrift/known-probes", "deterministic reproductions of listed known findings")
	if !vt.IsKnown(keyThriftAlloc) {
		return
	}
	vt.Init()
	// a 40-byte header frame announcing 2^24 transforms
	in := []byte{0, 0, 0, 36, 0x0f, 0xff, 0, 0, 0, 0, 0, 1, 0, 4, 0x00, 0x80, 0x80, 0x80, 0x08}
	for len(in) < 40 {
		in = append(in, 0)
	}
	_, _, _, alloc, _ := vt.UnpackMeasured(specThriftBinary(), in, 4096)
	if alloc > vt.AllocBound(4096, len(in)) {
		rec.KnownFinding(keyThriftAlloc, fmt.Sprintf("thrift header transport: a %d-byte frame announcing 2^24 transforms makes one Unpack allocate %d bytes under a 4096-byte read limit", len(in), alloc))
	}
}

func TestC06ThriftTruncationSweep(t *testing.T) { vt.RunTruncationSweep(t, specThriftBinary()) }

// TestC12ThriftUnregistered: the thrift binary protocol carries the pipe in a header; a frame
// whose pipe names an unregistered filter is refused (C12, thrift part).
func TestC12ThriftUnregistered(t *testing.T) {
	rec := vt.NewRec(t, "C12", "thrift/unregistered", "a thrift-binary frame packed with the one-filter pipe [gzip] whose Tp-XferPipe header value is replaced, in the frame bytes, by a generated unregistered id; oracle: Unpack errors instead of delivering the still-filtered body; every case non-trivial; distinct by id")
	rapid.Check(t, func(t *rapid.T) {
		vt.Init()
		bad := vt.UnregisteredXfer(t, "bad")
		rec.Case(fmt.Sprintf("%d", bad), true)
		if rec.WantSample() {
			rec.Sample(map[string]interface{}{"unregistered": bad})
		}
		m := vt.Msg{Seq: 7, Mtype: 1, Method: "/m", Body: []byte("payload payload payload"), Codec: 's', Pipe: []byte{vt.XGzip5}}
		w := &vt.RW{}
		if err := thriftproto.NewBinaryProtoFunc()(w).Pack(m.Build()); err != nil {
			t.Fatalf("Pack: %v", err)
		}
		f := append([]byte(nil), w.Written()...)
		key := []byte("Tp-XferPipe")
		i := bytes.Index(f, key)
		if i < 0 || i+len(key)+2 > len(f) || f[i+len(key)] != 1 || f[i+len(key)+1] != vt.XGzip5 {
			t.Fatalf("harness: cannot locate the pipe header value in the frame %x", f)
		}
		f[i+len(key)+1] = bad
		r := vt.NewReceiver()
		var err error
		func() {
			defer func() {
				if p := recover(); p != nil {
					err = fmt.Errorf("panic: %v", p)
				}
			}()
			err = thriftproto.NewBinaryProtoFunc()(&vt.RW{In: f}).Unpack(r)
		}()
		if err == nil {
			t.Fatalf("thrift-binary: a frame naming the unregistered filter %d was accepted (delivered body %q)", bad, vt.BodyBytes(r))
		}
	})
}
