package thriftw

import (
	"fmt"
	"sort"
	"strings"
	"sync"
	"testing"

	erpc "github.com/henrylee2cn/erpc/v6"
	"github.com/henrylee2cn/erpc/v6/proto/thriftproto"
	"pgregory.net/rapid"

	"verifharness/vt"
)

// Frame sync of thrift sessions when the receiving side does not take the body of a frame
// (C05, session level): a result-less call, a reply refused by a calling-side reply hook, a
// CALL or PUSH to a route that does not exist. Whatever follows on the same connection must
// still be decoded as what it is.

// c05Veto refuses a reply at the stage named by the reply's "veto" metadata (echoed by the handlers).
type c05Veto struct{}

func (c05Veto) Name() string { return "c05-reply-veto" }
func (c05Veto) PostReadReplyHeader(ctx erpc.ReadCtx) *erpc.Status {
	if string(ctx.PeekMeta("veto")) == "post-header" {
		return erpc.NewStatus(4751, "reply refused", "PostReadReplyHeader")
	}
	return nil
}
func (c05Veto) PreReadReplyBody(ctx erpc.ReadCtx) *erpc.Status {
	if string(ctx.PeekMeta("veto")) == "pre-body" {
		return erpc.NewStatus(4752, "reply refused", "PreReadReplyBody")
	}
	return nil
}

type c05PushLog struct {
	mu  sync.Mutex
	got map[string]int
}

var c05Pushes = &c05PushLog{got: map[string]int{}}

func c05Echo(ctx erpc.CallCtx) {
	ctx.SetMeta("tok", string(ctx.PeekMeta("tok")))
	if v := ctx.PeekMeta("veto"); len(v) > 0 {
		ctx.SetMeta("veto", string(v))
	}
}

func TC05Struct(ctx erpc.CallCtx, a *vt.TStruct) (*vt.TStruct, *erpc.Status) {
	c05Echo(ctx)
	return &vt.TStruct{S: "R<" + a.S + ">", I: a.I + 1}, nil
}
func TC05Json(ctx erpc.CallCtx, a *TJ) (*TJ, *erpc.Status) {
	c05Echo(ctx)
	return &TJ{S: "R<" + a.S + ">"}, nil
}
func TC05Push(ctx erpc.PushCtx, a *vt.TStruct) *erpc.Status {
	c05Pushes.mu.Lock()
	c05Pushes.got[string(ctx.PeekMeta("tok"))+"="+a.S]++
	c05Pushes.mu.Unlock()
	return nil
}

type c05op struct {
	Kind  string // normal | noresult | veto-post | veto-pre | unknown-call | unknown-push | push
	Async bool
	FromB bool
	JSON  bool
	Len   int
}

func (o c05op) untaken() bool { return o.Kind != "normal" && o.Kind != "push" }

func TestC05UntakenReplies(t *testing.T) {
	rec := vt.NewRec(t, "C05", "thrift/untaken-sessions", "one session over thrift-struct or thrift-binary (thrift struct and, over thrift-binary, json bodies) under a generated read chunking; 3-12 operations issued in order from either end, synchronously or as AsyncCall: ordinary calls and pushes, calls without a result object (Call(method, arg, nil)), calls whose reply is refused by a calling-side PostReadReplyHeader / PreReadReplyBody hook, calls and pushes to a route that does not exist; oracle: every operation returns (liveness bound), every ordinary call completes OK with the reply to itself (result, reply metadata), a result-less call still receives its reply's metadata, every ordinary push arrives exactly once with its own body; non-trivial = an ordinary call or push is issued after an operation whose frame body nobody takes; distinct by program")
	rapid.Check(t, func(t *rapid.T) {
		vt.Init()
		structProto := rapid.Bool().Draw(t, "structproto")
		proto := vt.NamedProto{Name: "thrift-binary", Fn: thriftproto.NewBinaryProtoFunc()}
		if structProto {
			proto = vt.NamedProto{Name: "thrift-struct", Fn: thriftproto.NewStructProtoFunc()}
		}
		n := rapid.IntRange(3, 12).Draw(t, "ops")
		ops := make([]c05op, n)
		nt, sawUntaken := false, false
		classes := map[string]bool{"proto=" + proto.Name: true}
		for i := range ops {
			ops[i] = c05op{
				Kind:  rapid.SampledFrom([]string{"normal", "normal", "normal", "noresult", "noresult", "veto-post", "veto-pre", "unknown-call", "unknown-push", "push"}).Draw(t, "kind"),
				Async: rapid.Bool().Draw(t, "async"),
				FromB: rapid.IntRange(0, 3).Draw(t, "fromB") == 0,
				JSON:  !structProto && rapid.Bool().Draw(t, "json"),
				Len:   rapid.SampledFrom([]int{0, 1, 40, 1025, 5000}).Draw(t, "len"),
			}
			if ops[i].untaken() {
				sawUntaken = true
				classes["untaken:"+ops[i].Kind] = true
			} else if sawUntaken {
				nt = true
			}
		}
		chunks, cycle := vt.Chunks(t, "chunks")
		cls := []string{}
		for _, c := range []string{"proto=thrift-binary", "proto=thrift-struct", "untaken:noresult", "untaken:veto-post", "untaken:veto-pre", "untaken:unknown-call", "untaken:unknown-push"} {
			if classes[c] {
				cls = append(cls, c)
			}
		}
		rec.Case(fmt.Sprintf("%s|%v|%v|%v", proto.Name, ops, chunks, cycle), nt, cls...)
		if rec.WantSample() && nt {
			rec.Sample(map[string]interface{}{"proto": proto.Name, "ops": fmt.Sprint(ops), "chunks": chunks, "cycle": cycle})
		}

		c05Pushes.mu.Lock()
		c05Pushes.got = map[string]int{}
		c05Pushes.mu.Unlock()
		w := vt.NewWorld()
		defer w.Close()
		a, b := w.Peer(erpc.PeerConfig{}, c05Veto{}), w.Peer(erpc.PeerConfig{}, c05Veto{})
		type routes struct{ cs, cj, ps string }
		reg := func(p erpc.Peer) routes {
			return routes{p.RouteCallFunc(TC05Struct), p.RouteCallFunc(TC05Json), p.RoutePushFunc(TC05Push)}
		}
		ra, rb := reg(a), reg(b)
		l := w.Connect(a, b, proto, func(p *vt.Pair) { p.SetChunks(vt.AtoB, chunks, cycle); p.SetChunks(vt.BtoA, chunks, cycle) })
		if l.A == nil || l.B == nil {
			t.Fatalf("harness: connect failed: %v %v", l.AStat, l.BStat)
		}

		type pend struct {
			i    int
			op   c05op
			cmd  erpc.CallCmd
			tok  string
			body string
			get  func() string
		}
		history := func(i int) string { return fmt.Sprintf("%s, op #%d of %v, chunks %v cycle %v", proto.Name, i, ops, chunks, cycle) }
		verify := func(p pend) {
			if !vt.WaitClosed(p.cmd.Done()) {
				t.Fatalf("C05 violated: %s: the call never completed (frame sync lost behind an untaken body?)\n%s", history(p.i), vt.Hang("completion of the call"))
			}
			switch p.op.Kind {
			case "normal":
				if !p.cmd.StatusOK() {
					t.Fatalf("C05 violated: %s: ordinary call failed: %v", history(p.i), p.cmd.Status())
				}
				if got, want := p.get(), "R<"+p.body+">"; got != want {
					t.Fatalf("C05 violated: %s: result is not the reply to this call: got %s want %s", history(p.i), vt.Trunc(got), vt.Trunc(want))
				}
				if mt := string(p.cmd.InputMeta().Peek("tok")); mt != p.tok {
					t.Fatalf("C05 violated: %s: reply metadata token %q, want %q", history(p.i), mt, p.tok)
				}
			case "noresult":
				// nobody takes the body; the header of the reply is still this call's reply
				if p.cmd.StatusOK() {
					if mt := string(p.cmd.InputMeta().Peek("tok")); mt != p.tok {
						t.Fatalf("C05 violated: %s: result-less call: reply metadata token %q, want %q", history(p.i), mt, p.tok)
					}
				}
			}
		}
		var pending []pend
		npush := map[string]bool{}
		for i, op := range ops {
			sess, r := l.A, rb
			if op.FromB {
				sess, r = l.B, ra
			}
			tok := fmt.Sprintf("o%d", i)
			body := tok + ":" + strings.Repeat("p", op.Len)
			set := []erpc.MessageSetting{erpc.WithAddMeta("tok", tok)}
			var arg, res interface{}
			var get func() string
			route := r.cs
			if op.JSON {
				set = append(set, erpc.WithBodyCodec('j'))
				arg, route = &TJ{S: body}, r.cj
				x := new(TJ)
				res, get = x, func() string { return x.S }
			} else {
				set = append(set, erpc.WithBodyCodec('t'))
				arg = &vt.TStruct{S: body, I: int64(i)}
				x := new(vt.TStruct)
				res, get = x, func() string { return x.S }
			}
			switch op.Kind {
			case "noresult":
				res = nil
			case "veto-post":
				set = append(set, erpc.WithAddMeta("veto", "post-header"))
			case "veto-pre":
				set = append(set, erpc.WithAddMeta("veto", "pre-body"))
			case "unknown-call":
				route = "TC05Nowhere"
			}
			switch op.Kind {
			case "push", "unknown-push":
				proute := r.ps
				if op.Kind == "unknown-push" {
					proute = "TC05NowherePush"
				} else {
					npush[tok+"="+body] = true
				}
				var stat *erpc.Status
				if !vt.Returns(func() {
					stat = sess.Push(proute, &vt.TStruct{S: body}, erpc.WithAddMeta("tok", tok), erpc.WithBodyCodec('t'))
				}) {
					t.Fatalf("C05 violated: %s\n%s", history(i), vt.Hang("return of Push"))
				}
				if !stat.OK() {
					t.Fatalf("C05 violated: %s: push could not be sent: %v", history(i), stat)
				}
				continue
			}
			var cmd erpc.CallCmd
			if !vt.Returns(func() { cmd = sess.AsyncCall(route, arg, res, make(chan erpc.CallCmd, 1), set...) }) {
				t.Fatalf("C05 violated: %s\n%s", history(i), vt.Hang("return of AsyncCall"))
			}
			p := pend{i, op, cmd, tok, body, get}
			if op.Async {
				pending = append(pending, p)
			} else {
				verify(p)
			}
		}
		for _, p := range pending {
			verify(p)
		}
		ok := vt.WaitUntil(func() bool {
			c05Pushes.mu.Lock()
			defer c05Pushes.mu.Unlock()
			for k := range npush {
				if c05Pushes.got[k] == 0 {
					return false
				}
			}
			return true
		})
		c05Pushes.mu.Lock()
		got := map[string]int{}
		for k, v := range c05Pushes.got {
			got[k] = v
		}
		c05Pushes.mu.Unlock()
		if !ok {
			t.Fatalf("C05 violated: %s: pushes sent %d, arrived %d (with their own body): %v", history(n), len(npush), len(got), got)
		}
		keys := make([]string, 0, len(got))
		for k := range got {
			keys = append(keys, k)
		}
		sort.Strings(keys)
		for _, k := range keys {
			if !npush[k] || got[k] != 1 {
				t.Fatalf("C05 violated: %s: push %s arrived %d times (sent: %v)", history(n), vt.Trunc(k), got[k], npush[k])
			}
		}
	})
}
