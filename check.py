#!/usr/bin/env python3
"""Driver for the property-based / fuzzing checks of /verif.

usage: check.py <property-id> <quick|thorough> [--replay <path>]
       check.py build            (setup: warm the build cache)

exit 0: the property held on everything explored (KNOWN-FINDING lines may be printed)
exit 1: a line "VIOLATION property=<id> replay=<path>" was printed
exit 2: inconclusive / infrastructure problem (build failure, time budget, killed worker)
"""
import hashlib
import json
import os
import re
import shutil
import subprocess
import sys
import time

ROOT = os.path.dirname(os.path.abspath(__file__))
HARNESS = os.path.join(ROOT, "harness")
WORK = os.path.join(ROOT, ".work")
EVID = os.path.join(ROOT, "evidence")
REPLAYS = os.path.join(ROOT, "replays")
KNOWN = os.path.join(ROOT, "known_findings.json")

REPO = "/repo"
# Development aid (never used by the registered commands): VERIF_ALT_REPO=<dir> runs the same
# checks against another checkout (a scratch worktree carrying a seeded change) from a private
# copy of the harness, with work files, evidence and replays kept apart, so /repo stays untouched.
ALT = os.environ.get("VERIF_ALT_REPO")
if ALT:
    ALT = os.path.abspath(ALT)
    REPO = ALT
    WORK = os.path.join(ROOT, ".work", "alt-" + hashlib.sha1(ALT.encode()).hexdigest()[:8])
    alt_h = os.path.join(WORK, "harness")
    shutil.rmtree(alt_h, ignore_errors=True)
    shutil.copytree(HARNESS, alt_h, ignore=shutil.ignore_patterns("testdata", "*.test"))
    gm = open(os.path.join(alt_h, "go.mod")).read().replace("=> /repo", "=> " + ALT)
    open(os.path.join(alt_h, "go.mod"), "w").write(gm)
    HARNESS = alt_h
    EVID = os.path.join(WORK, "evidence")
    REPLAYS = os.path.join(WORK, "replays")

ENV = dict(os.environ)
ENV.update({
    "GOFLAGS": "-mod=mod", "GOPROXY": "off", "GOSUMDB": "off", "GOTOOLCHAIN": "local",
    "VERIF_KNOWN": KNOWN,
})

sys.path.insert(0, ROOT)
from checks_config import CHECKS  # noqa: E402


def log(*a):
    print(*a, flush=True)


def derive_seed(base, *parts):
    h = hashlib.sha256(("%d|" % base + "|".join(str(p) for p in parts)).encode()).digest()
    s = int.from_bytes(h[:8], "big") & 0x7FFFFFFFFFFFFFFF
    return s or 0x5EED5EED


def ensure_gosum():
    src, dst = os.path.join(REPO, "go.sum"), os.path.join(HARNESS, "go.sum")
    try:
        if not os.path.exists(dst):
            shutil.copy(src, dst)
    except OSError:
        pass


def build(pkg, race=False, fuzz=False):
    """go test -c for one harness package against /repo's current working tree."""
    ensure_gosum()
    os.makedirs(os.path.join(WORK, "bin"), exist_ok=True)
    out = os.path.join(WORK, "bin", pkg + (".race" if race else "") + (".fuzz" if fuzz else "") + ".test")
    cmd = ["go", "test", "-c", "-tags", "verif", "-o", out]
    if race:
        cmd += ["-race", "-gcflags=all=-d=checkptr=0"]
    if fuzz:
        cmd += ["-fuzz=Fuzz"]  # coverage instrumentation for the native fuzzer
    cmd += ["./" + pkg]
    t0 = time.time()
    p = subprocess.run(cmd, cwd=HARNESS, env=ENV, stdout=subprocess.PIPE, stderr=subprocess.STDOUT, text=True)
    if p.returncode != 0:
        log("BUILD FAILED for %s (%.1fs):\n%s" % (pkg, time.time() - t0, p.stdout[-6000:]))
        return None
    return out


FAIL_RE = re.compile(r"^\s*--- FAIL: (\S+)", re.M)

FRAMEWORK_PREFIXES = ("github.com/henrylee2cn/erpc/v6", "github.com/henrylee2cn/goutil")
UNSAFE_GLOBAL_SETTERS = ("SetLoggerLevel", "SetLoggerLevel2", "SetMessageSizeLimit", "SetDefaultProtoFunc",
                         "SetServiceMethodMapper", "SetLoggerOutputter", "SetDefaultBodyCodec", "SetGopool")


def _innermost(stack):
    """first frame that is not Go runtime / sync machinery"""
    for fn in stack:
        if fn.startswith(("runtime.", "sync.", "sync/atomic.", "internal/", "reflect.", "testing.")):
            continue
        return fn
    return stack[0] if stack else "?"


def parse_race_logs(cwd):
    """Parse GORACE log files into reports {a, b, framework, text}."""
    reports = []
    for fn in sorted(os.listdir(cwd)):
        if not fn.startswith("race."):
            continue
        txt = open(os.path.join(cwd, fn), errors="replace").read()
        for block in txt.split("=================="):
            if "WARNING: DATA RACE" not in block:
                continue
            stacks, cur = [], None
            for line in block.splitlines():
                if re.match(r"^(Write|Read|Previous write|Previous read|Atomic|Previous atomic)", line.strip()) and " by " in line:
                    cur = []
                    stacks.append(cur)
                    continue
                if line.startswith("Goroutine ") or not line.strip():
                    if line.startswith("Goroutine "):
                        cur = None
                    continue
                if cur is not None and line.startswith("  ") and not line.startswith("      "):
                    cur.append(line.strip().split("(")[0] if line.strip().endswith(")") and "(" in line and not line.strip().startswith("github") else re.sub(r"\(\)$", "", line.strip()))
            tops = [_innermost(st) for st in stacks[:2]]
            while len(tops) < 2:
                tops.append("?")
            fw = all(t.startswith(FRAMEWORK_PREFIXES) for t in tops)
            harness_setter = any(t.split(".")[-1] in UNSAFE_GLOBAL_SETTERS for t in tops)
            harness_frames = any(any(f.startswith("verifharness/") for f in st[:1]) for st in stacks[:2])
            key = "C14:race:" + "|".join(sorted(re.sub(r"^github.com/henrylee2cn/", "", t) for t in tops))
            reports.append({"key": key, "tops": tops, "framework": fw and not harness_setter and not harness_frames, "text": block.strip()[:6000],
                            "stacks": [list(st) for st in stacks[:2]]})
    return reports


def run_one(prop, tier, run, idx, shard, nshards, base_seed, scratch, replay=None):
    """Run one test-binary invocation; returns dict(result=ok|fail|infra, ...)."""
    pkg = run["pkg"]
    binp = build(pkg, race=run.get("race", False), fuzz=bool(run.get("fuzz")) and tier == "thorough" and not replay)
    if binp is None:
        return {"result": "infra", "why": "build failed"}
    cwd = os.path.join(scratch, "run%d_%d" % (idx, shard))
    os.makedirs(cwd, exist_ok=True)
    stats = os.path.join(cwd, "stats.jsonl")
    journal = os.path.join(cwd, "journal.json")
    seed = derive_seed(base_seed, prop, idx, shard)
    checks = run.get(tier, run.get("quick", 100))
    per = max(1, (checks + nshards - 1) // nshards)
    timeout = run.get("timeout_" + tier, 900 if tier == "quick" else 5400)
    args = [binp, "-test.run", run["run"], "-test.timeout", "%ds" % timeout, "-test.count=1"]
    if run.get("rapid", True):
        args += ["-rapid.checks=%d" % per, "-rapid.seed=%d" % seed, "-rapid.shrinktime=%s" % run.get("shrinktime", "20s")]
    if replay:
        args += ["-rapid.failfile=" + replay]
    if run.get("fuzz") and tier == "thorough" and not replay:
        args = [binp, "-test.run", "^$", "-test.fuzz", run["fuzz"], "-test.fuzztime", run.get("fuzztime", "60s"),
                "-test.fuzzcachedir", os.path.join(cwd, "fuzzcache"), "-test.timeout", "%ds" % timeout,
                "-test.parallel", str(run.get("fuzzworkers", 4))]
    if replay and run.get("fuzz"):
        args = [binp, "-test.run", run["run"], "-test.timeout", "%ds" % timeout, "-test.count=1"]
    env = dict(ENV)
    env.update({"VERIF_TIER": tier, "VERIF_STATS": stats, "VERIF_JOURNAL": journal,
                "VERIF_SEED_DERIVED": str(seed), "VERIF_SCRATCH": cwd})
    if run.get("race"):
        env["GORACE"] = "halt_on_error=0 log_path=%s" % os.path.join(cwd, "race")
    env.update(run.get("env", {}))
    t0 = time.time()
    try:
        p = subprocess.run(args, cwd=cwd, env=env, stdout=subprocess.PIPE, stderr=subprocess.STDOUT,
                           text=True, errors="replace", timeout=timeout + 60)
        out, rc = p.stdout, p.returncode
    except subprocess.TimeoutExpired as e:
        out = (e.stdout or b"")
        if isinstance(out, bytes):
            out = out.decode("utf-8", "replace")
        rc = -9
    wall = time.time() - t0
    with open(os.path.join(cwd, "output.log"), "w") as f:
        f.write(out)
    res = {"rc": rc, "wall": wall, "cwd": cwd, "stats": stats, "journal": journal, "out": out, "seed": seed,
           "pkg": pkg, "run": run, "checks": per}
    if run.get("fuzz") and tier == "thorough" and not replay:
        execs = [int(x) for x in re.findall(r"execs: (\d+)", out)]
        inter = [int(x) for x in re.findall(r"new interesting: (\d+)", out)]
        total = [int(x) for x in re.findall(r"new interesting: \d+ \(total: (\d+)\)", out)]
        with open(stats, "a") as f:
            f.write(json.dumps({"sub": "fuzz:" + run["fuzz"].strip("^$"), "evals": max(execs or [0]),
                                "nontrivial_total": max(inter or [0]), "classes": {"corpus_total": max(total or [0])},
                                "distinct_hashes": [], "samples": [],
                                "rule": "coverage-guided native fuzzing (%s, %s workers) of one entry function with the semantic oracle inside the target; evaluations = executions reported by the fuzzer; non-trivial = inputs that reached new coverage; not pinned by VERIF_SEED (only a saved failing input is reproducible)" % (run.get("fuzztime", "60s"), run.get("fuzzworkers", 4))}) + "\n")
    if run.get("race"):
        res["race"] = parse_race_logs(cwd)
        if rc != 0 and "race detected during execution of test" in out and "--- FAIL" in out:
            # decide from the parsed reports, not from the exit code
            only_race = not re.search(r"rapid\] (failed|panic)", out) and "panic:" not in out
            if only_race:
                rc = 0
    if rc == 0:
        res["result"] = "ok"
        return res
    if rc < 0 or "panic: test timed out" in out or "signal: killed" in out or "cannot allocate memory" in out \
            or "out of memory" in out or "VERIF-INFRA:" in out:
        res["result"] = "infra"
        res["why"] = "timeout/killed (rc=%d)" % rc
        return res
    res["result"] = "fail"
    return res


def collect_replay(prop, res):
    """Find or build the replay artefact for a failing run; returns its path."""
    dst_dir = os.path.join(REPLAYS, prop)
    os.makedirs(dst_dir, exist_ok=True)
    cwd, out = res["cwd"], res["out"]
    fails = []
    for d, _, files in os.walk(os.path.join(cwd, "testdata")):
        for fn in files:
            if fn.endswith(".fail"):
                fails.append(os.path.join(d, fn))
    for d, _, files in os.walk(os.path.join(cwd, "testdata", "fuzz")):
        for fn in files:
            fails.append(os.path.join(d, fn))
    m = FAIL_RE.findall(out)
    tests = [x for x in m]
    stamp = time.strftime("%Y%m%d-%H%M%S")
    if fails:
        src = sorted(fails)[0]
        testname = os.path.basename(os.path.dirname(src))
        dst = os.path.join(dst_dir, "%s__%s__%s__%s" % (res["pkg"], testname, stamp, os.path.basename(src)))
        shutil.copy(src, dst)
        meta = {"pkg": res["pkg"], "test_dir": testname, "tests": tests, "seed": res["seed"],
                "kind": "rapid-failfile" if src.endswith(".fail") else "fuzz-input"}
    elif ("panic:" in out or "fatal error:" in out) and os.path.exists(res["journal"]):
        dst = os.path.join(dst_dir, "%s__crash__%s.journal.json" % (res["pkg"], stamp))
        shutil.copy(res["journal"], dst)
        meta = {"pkg": res["pkg"], "tests": tests, "seed": res["seed"], "kind": "crash-journal"}
    else:
        dst = os.path.join(dst_dir, "%s__%s.log" % (res["pkg"], stamp))
        with open(dst, "w") as f:
            f.write(out[-200000:])
        meta = {"pkg": res["pkg"], "tests": tests, "seed": res["seed"], "kind": "history-log"}
    with open(dst + ".meta.json", "w") as f:
        json.dump(meta, f, indent=1)
    with open(dst + ".output.log", "w") as f:
        f.write(out[-200000:])
    return dst


def load_known_keys():
    try:
        d = json.load(open(KNOWN))
        return {e["key"] for e in d.get("entries", []) if e.get("kind") == "known"}
    except (OSError, ValueError):
        return set()


def load_known_race_sites():
    """Known findings about one racing site: entries with "race_site": [substr, ...]. A report
    belongs to such a finding when one of its two stacks contains every substring (the site is
    the specific call path that fails; any other race is still a violation)."""
    try:
        d = json.load(open(KNOWN))
        return [(e["key"], e["race_site"]) for e in d.get("entries", []) if e.get("kind") == "known" and e.get("race_site")]
    except (OSError, ValueError):
        return []


def race_site_key(rep, sites):
    for key, subs in sites:
        for st in rep.get("stacks") or []:
            joined = "\n".join(st)
            if all(x in joined for x in subs):
                return key
    return None


def merge_stats(paths):
    recs = []
    for p in paths:
        if not os.path.exists(p):
            continue
        with open(p) as f:
            for line in f:
                line = line.strip()
                if line:
                    try:
                        recs.append(json.loads(line))
                    except ValueError:
                        pass
    return recs


def write_evidence(prop, tier, base_seed, level, recs, wall, violations, extra):
    os.makedirs(EVID, exist_ok=True)
    evals = sum(r.get("evals", 0) for r in recs)
    distinct = set()
    classes, excluded, rules, samples, subs, notes, known = {}, {}, [], [], {}, [], []
    exhaustive_subs = []
    for r in recs:
        sub = r.get("sub", "")
        for h in r.get("distinct_hashes") or []:
            distinct.add((sub, h))
        for k, v in (r.get("classes") or {}).items():
            classes[sub + ":" + k] = classes.get(sub + ":" + k, 0) + v
        for k, v in (r.get("excluded_known") or {}).items():
            excluded[k] = excluded.get(k, 0) + v
        rule = "%s: %s" % (sub, r.get("rule", ""))
        if rule not in rules:
            rules.append(rule)
        s = subs.setdefault(sub, {"evaluations": 0, "nontrivial": 0})
        s["evaluations"] += r.get("evals", 0)
        s["nontrivial"] += r.get("nontrivial_total", 0)
        for smp in (r.get("samples") or []):
            if sum(1 for x in samples if x.get("sub") == sub) < 3:
                samples.append({"sub": sub, "case": smp})
        if r.get("exhaustive"):
            exhaustive_subs.append(sub)
        notes += r.get("notes") or []
        known += r.get("known_findings") or []
    cov = {
        "evaluations": evals,
        "distinct_nontrivial": len(distinct),
        "rule": " || ".join(rules) if rules else "no cases recorded",
        "samples": samples[:40],
        "per_subcheck": subs,
        "class_histogram": classes,
        "excluded_known": excluded,
        "known_findings_reproduced": sorted(set(known)),
        "exhaustive": False,
        "exhaustive_subchecks": sorted(set(exhaustive_subs)),
        "notes": notes[:40],
    }
    cov.update(extra or {})
    ev = {
        "property_id": prop, "tier": tier, "seed": int(base_seed), "level": level,
        "coverage": cov,
        "assumptions": CHECKS[prop].get("assumptions", []),
        "wall_s": round(wall, 2), "violations": violations,
    }
    tmp = os.path.join(EVID, prop + ".json.tmp")
    with open(tmp, "w") as f:
        json.dump(ev, f, indent=1, sort_keys=True, default=str)
    os.replace(tmp, os.path.join(EVID, prop + ".json"))


def find_replay_run(prop, path):
    meta = {}
    if os.path.exists(path + ".meta.json"):
        with open(path + ".meta.json") as f:
            meta = json.load(f)
    runs = CHECKS[prop]["runs"]
    pkg = meta.get("pkg")
    tdir = meta.get("test_dir")
    if not tdir and path.endswith(".fail"):
        tdir = os.path.basename(os.path.dirname(path))
    for r in runs:
        if pkg and r["pkg"] != pkg:
            continue
        return r, tdir, meta
    return runs[0], tdir, meta


def do_replay(prop, path):
    path = os.path.abspath(path)
    if not os.path.exists(path):
        log("replay file not found: %s" % path)
        return 2
    run, tdir, meta = find_replay_run(prop, path)
    scratch = os.path.join(WORK, prop, "replay")
    shutil.rmtree(scratch, ignore_errors=True)
    os.makedirs(scratch, exist_ok=True)
    r = dict(run)
    kind = meta.get("kind", "rapid-failfile" if path.endswith(".fail") else "history-log")
    if kind == "rapid-failfile":
        tests = meta.get("tests") or []
        # pick the deepest failing test name (sub-test) to re-run
        name = max(tests, key=len) if tests else None
        if name:
            r["run"] = "^" + "$/^".join(re.escape(x) for x in name.split("/")) + "$"
        res = run_one(prop, "quick", r, 0, 0, 1, 1, scratch, replay=path)
    elif kind == "fuzz-input":
        target = meta.get("test_dir") or tdir
        d = os.path.join(scratch, "run0_0", "testdata", "fuzz", target)
        os.makedirs(d, exist_ok=True)
        shutil.copy(path, os.path.join(d, "replayinput"))
        for cand in CHECKS[prop]["runs"]:
            if cand.get("fuzz") and cand["fuzz"].strip("^$") == target:
                r = dict(cand)
        r["run"] = "^%s$/^replayinput$" % target
        r["fuzz"] = r.get("fuzz") or target
        r["rapid"] = False
        res = run_one(prop, "quick", r, 0, 0, 1, 1, scratch, replay=path)
    elif kind == "crash-journal":
        r["env"] = dict(r.get("env", {}))
        r["env"]["VERIF_REPLAY"] = path
        r["run"] = "^Test%sReplay$" % prop
        res = run_one(prop, "quick", r, 0, 0, 1, 1, scratch)
    else:
        log("replay file is a recorded history/log (not re-executable):\n" + open(path).read()[-4000:])
        return 1
    sys.stdout.write(res.get("out", "")[-8000:])
    if res["result"] == "fail":
        log("VIOLATION property=%s replay=%s" % (prop, path))
        return 1
    if res["result"] == "infra":
        return 2
    log("replay did not reproduce a violation")
    return 0


def main():
    if len(sys.argv) >= 2 and sys.argv[1] == "build":
        ok = True
        pkgs = sorted({(r["pkg"], bool(r.get("race"))) for c in CHECKS.values() for r in c["runs"]})
        for pkg, race in pkgs:
            if race and os.environ.get("VERIF_SKIP_RACE_BUILD"):
                continue
            t0 = time.time()
            b = build(pkg, race)
            log("build %s%s: %s (%.1fs)" % (pkg, " (race)" if race else "", "ok" if b else "FAILED", time.time() - t0))
            ok = ok and b is not None
        return 0 if ok else 2
    if len(sys.argv) < 3:
        log(__doc__)
        return 2
    prop, tier = sys.argv[1], sys.argv[2]
    if prop not in CHECKS:
        log("unknown property %s" % prop)
        return 2
    if "--replay" in sys.argv:
        return do_replay(prop, sys.argv[sys.argv.index("--replay") + 1])
    if tier not in ("quick", "thorough"):
        log("tier must be quick or thorough")
        return 2
    tier = os.environ.get("VERIF_TIER_OVERRIDE", tier)
    try:
        base_seed = int(os.environ.get("VERIF_SEED", "1"))
    except ValueError:
        base_seed = 1
    cfg = CHECKS[prop]
    scratch = os.path.join(WORK, prop, tier)
    shutil.rmtree(scratch, ignore_errors=True)
    os.makedirs(scratch, exist_ok=True)
    t0 = time.time()
    results = []
    procs = []
    ncpu = os.cpu_count() or 4
    jobs = []
    for idx, run in enumerate(cfg["runs"]):
        if run.get("only") and run["only"] != tier:
            continue
        nshards = run.get("shards_" + tier, 1)
        for shard in range(nshards):
            jobs.append((idx, run, shard, nshards))
    # build everything first (sequentially; cached)
    for pkg, race, fz in sorted({(j[1]["pkg"], bool(j[1].get("race")), bool(j[1].get("fuzz")) and tier == "thorough") for j in jobs}):
        if build(pkg, race, fz) is None:
            write_evidence(prop, tier, base_seed, cfg["level"], [], time.time() - t0, 0,
                           {"inconclusive": "build failed"})
            return 2
    from concurrent.futures import ThreadPoolExecutor
    par = cfg.get("parallel_" + tier, min(ncpu, 8) if tier == "thorough" else 4)
    with ThreadPoolExecutor(max_workers=max(1, par)) as ex:
        futs = [ex.submit(run_one, prop, tier, run, idx, shard, nshards, base_seed, scratch)
                for (idx, run, shard, nshards) in jobs]
        results = [f.result() for f in futs]
    wall = time.time() - t0
    recs = merge_stats([r["stats"] for r in results if "stats" in r])
    fails = [r for r in results if r["result"] == "fail"]
    infra = [r for r in results if r["result"] == "infra"]
    # data-race reports (C14): a report counts when both accesses are in framework code
    race_viol, race_known, race_infra = [], [], []
    known_keys = load_known_keys()
    known_sites = load_known_race_sites()
    for r in results:
        for rep in r.get("race") or []:
            if race_site_key(rep, known_sites):
                rep = dict(rep, key=race_site_key(rep, known_sites))
                race_known.append(rep)
            elif not rep["framework"]:
                race_infra.append(rep)
            elif rep["key"] in known_keys:
                race_known.append(rep)
            else:
                race_viol.append((r, rep))
    seen_keys = set()
    for rep in race_known:
        if rep["key"] not in seen_keys:
            seen_keys.add(rep["key"])
            log("KNOWN-FINDING: property=%s data race between %s and %s [%s]" % (prop, rep["tops"][0], rep["tops"][1], rep["key"]))
    if race_viol:
        os.makedirs(os.path.join(REPLAYS, prop), exist_ok=True)
        recs = merge_stats([r["stats"] for r in results if "stats" in r])
        write_evidence(prop, tier, base_seed, cfg["level"], recs, time.time() - t0, len(race_viol),
                       {"race_reports": [x[1]["key"] for x in race_viol]})
        done_keys = set()
        for r, rep in race_viol:
            if rep["key"] in done_keys:
                continue
            done_keys.add(rep["key"])
            pth = os.path.join(REPLAYS, prop, "race__%s__%s.log" % (time.strftime("%Y%m%d-%H%M%S"), hashlib.sha1(rep["key"].encode()).hexdigest()[:8]))
            with open(pth, "w") as f:
                f.write(rep["key"] + "\n\n" + rep["text"] + "\n")
            with open(pth + ".meta.json", "w") as f:
                json.dump({"kind": "history-log", "pkg": r.get("pkg"), "seed": r.get("seed")}, f)
            log("  data race: %s <-> %s" % (rep["tops"][0], rep["tops"][1]))
            log("VIOLATION property=%s replay=%s" % (prop, pth))
        return 1
    if race_infra and not any(r["result"] == "fail" for r in results):
        log("INCONCLUSIVE: %d race report(s) involve harness code or non-concurrency-safe global setters; first: %s" % (len(race_infra), race_infra[0]["tops"]))
        recs = merge_stats([r["stats"] for r in results if "stats" in r])
        write_evidence(prop, tier, base_seed, cfg["level"], recs, time.time() - t0, 0, {"inconclusive": "harness race"})
        return 2
    known_lines = []
    for r in results:
        for line in (r.get("out") or "").splitlines():
            if line.startswith("KNOWN-FINDING:") and line not in known_lines:
                known_lines.append(line)
    for line in known_lines:
        log(line)
    extra = {"runs": [{"pkg": r.get("pkg"), "test": r["run"]["run"] if "run" in r else None, "seed": r.get("seed"),
                       "requested_checks": r.get("checks"), "wall_s": round(r.get("wall", 0), 1),
                       "result": r["result"]} for r in results]}
    if fails:
        paths = []
        for r in fails:
            paths.append(collect_replay(prop, r))
        write_evidence(prop, tier, base_seed, cfg["level"], recs, wall, len(fails), extra)
        for r, pth in zip(fails, paths):
            tail = [l for l in r["out"].splitlines() if "[rapid] failed" in l or "panic:" in l or "--- FAIL" in l][:6]
            for l in tail:
                log("  " + l.strip()[:600])
            log("VIOLATION property=%s replay=%s" % (prop, pth))
        return 1
    if infra:
        extra["inconclusive"] = "; ".join(r.get("why", "?") for r in infra)
        write_evidence(prop, tier, base_seed, cfg["level"], recs, wall, 0, extra)
        for r in infra:
            log("INCONCLUSIVE: %s (%s) — see %s" % (r.get("why"), r.get("pkg"), os.path.join(r.get("cwd", "?"), "output.log")))
        return 2
    write_evidence(prop, tier, base_seed, cfg["level"], recs, wall, 0, extra)
    evals = sum(r.get("evals", 0) for r in recs)
    log("OK property=%s tier=%s seed=%d evaluations=%d wall=%.1fs" % (prop, tier, base_seed, evals, wall))
    return 0


if __name__ == "__main__":
    sys.exit(main())
