#!/usr/bin/env python3
"""Regenerates MANIFEST.json from checks_config.py + manifest_text.py."""
import json, os, sys
ROOT = os.path.dirname(os.path.abspath(__file__))
sys.path.insert(0, ROOT)
from checks_config import CHECKS
from manifest_text import TEXT, NOT_APPLICABLE, HOOK_COMMITS

props = [json.loads(l)["id"] for l in open(os.path.join(ROOT, "properties.jsonl"))]
checks = []
for pid in props:
    if pid not in CHECKS or pid not in TEXT:
        continue
    t = TEXT[pid]
    checks.append({
        "property_id": pid,
        "quick_cmd": "python3 check.py %s quick" % pid,
        "thorough_cmd": "python3 check.py %s thorough" % pid,
        "evidence_file": "/verif/evidence/%s.json" % pid,
        "replay_cmd_template": "python3 check.py %s --replay {path}" % pid,
        "engine": "rapid-harness",
        "level_claimed": {"category": CHECKS[pid]["level"], "text": t["level_text"], "design_ref": "DESIGN.md section 5 / " + pid},
        "level_note": t["level_note"],
        "technique": t["technique"],
    })
na = [{"property_id": p, "reason": NOT_APPLICABLE.get(p, "check not built yet in this session; see DESIGN.md section 5 for the planned property-based check")}
      for p in props if p not in {c["property_id"] for c in checks}]
m = {
    "version": 1,
    "setup_cmd": "python3 check.py build",
    "hooks": {
        "guard": "verif (Go build tag)",
        "enable": "go test -c -tags verif in /verif/harness (module verifharness, replace github.com/henrylee2cn/erpc/v6 => /repo)",
        "baseline_off_cmd": "cd /repo && GOFLAGS=-mod=mod GOPROXY=off GOSUMDB=off go test -json -vet=off -count=1 -timeout 25m ./...",
        "source_commits": HOOK_COMMITS,
        "add_only": True,
    },
    "engines": [
        {"name": "rapid-harness", "path": "/verif/harness", "serves_properties": [c["property_id"] for c in checks],
         "kind_free_text": "Go test binaries (pgregory.net/rapid v1.3.0 properties and state machines, native go fuzz targets in the thorough tier) driven by /verif/check.py; the real framework code runs in-process over a harness-owned in-memory transport"},
    ],
    "checks": checks,
    "not_applicable": na,
    "notes": "check.py exit codes: 0 held, 1 VIOLATION line printed, 2 inconclusive (build failure / time budget). Known findings: /verif/known_findings.json.",
}
json.dump(m, open(os.path.join(ROOT, "MANIFEST.json"), "w"), indent=1)
print("wrote MANIFEST.json with %d checks, %d not_applicable" % (len(checks), len(na)))
