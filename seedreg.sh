#!/bin/bash
# Regression over all recorded seeded changes: every change is applied to a scratch worktree of
# /repo HEAD and run against the check(s) recorded as detecting it (quick tier). A change whose
# patch no longer applies (the code around it was repaired since) is reported as such.
# usage: seedreg.sh [parallelism] [name-filter-regex]
ROOT=$(dirname $(readlink -f $0))
par=${1:-4}; filt=${2:-.}
out=$ROOT/.work/seedreg; rm -rf $out; mkdir -p $out
ls $ROOT/seeded | grep -E "^[CF][0-9]+-[a-z]$" | grep -E "$filt" | while read name; do
  checks=$(python3 -c "import json;d=json.load(open('$ROOT/seeded/$name/meta.json'));p=d['property'];l=d['detected_by'];print(p if p in l else l[0])")
  echo "$name $checks"
done > $out/plan.txt
cat $out/plan.txt | xargs -P $par -L 1 bash -c '$0/seedtool.sh run $1 $2 > $0/.work/seedreg/$1.log 2>&1' $ROOT
for f in $out/[CF]*.log; do
  n=$(basename $f .log)
  if grep -q "VIOLATION" $f; then r=caught; elif grep -q "patch does not apply" $f; then r="patch-does-not-apply"; elif grep -q "^OK" $f; then r=MISSED; else r="inconclusive"; fi
  echo "$n $(grep "^$n " $out/plan.txt | cut -d' ' -f2) $r"
done | tee $out/summary.txt
