# Per-property run configuration for check.py.
# Each run = one invocation of a harness test binary:
#   pkg      harness package (./harness/<pkg>)
#   run      -test.run regexp
#   quick    -rapid.checks for the quick tier      thorough: for the thorough tier
#   shards_thorough: number of processes (different derived seeds) the thorough case count is split over
CHECKS = {
    "C05": {
        "level": "exploration",
        "assumptions": [
            "message field domains are the protocols' documented supported sets (DESIGN.md C05 table)",
            "bodies are raw byte strings (the documented codec bypass), so third-party codecs are not in the trusted base",
        ],
        "runs": [
            {"pkg": "wire", "run": "^TestC05(Raw|JSON|PB|HTTP|WsJSON|WsPB)$", "quick": 300, "thorough": 24000, "shards_thorough": 8},
            {"pkg": "wire", "run": "^TestC05KnownProbes$", "quick": 1, "thorough": 1},
            {"pkg": "thriftw", "run": "^TestC05Thrift(Binary|Struct)$", "quick": 300, "thorough": 24000, "shards_thorough": 4},
        ],
    },
}
