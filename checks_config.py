# Per-property run configuration for check.py.
# Each run = one invocation of a harness test binary:
#   pkg      harness package (./harness/<pkg>)
#   run      -test.run regexp
#   quick    -rapid.checks for the quick tier      thorough: for the thorough tier
#   shards_thorough: number of processes (different derived seeds) the thorough case count is split over
CHECKS = {
    "C05": {
        "level": "exploration",
        "assumptions": [
            "message field domains are the protocols' documented supported sets (DESIGN.md C05 table)",
            "bodies are raw byte strings (the documented codec bypass), so third-party codecs are not in the trusted base",
        ],
        "runs": [
            {"pkg": "wire", "run": "^TestC05(Raw|JSON|PB|HTTP|WsJSON|WsPB)$", "quick": 300, "thorough": 24000, "shards_thorough": 8},
            {"pkg": "wire", "run": "^TestC05KnownProbes$", "quick": 1, "thorough": 1},
            {"pkg": "thriftw", "run": "^TestC05Thrift(Binary|Struct)$", "quick": 300, "thorough": 24000, "shards_thorough": 4},
        ],
    },
    "C01": {
        "level": "exploration",
        "assumptions": ["interleavings are those the Go scheduler produces under the generated load and read chunking; no schedule is forced inside pack/unpack"],
        "runs": [
            {"pkg": "core", "run": "^TestC01CrossTalk$", "quick": 400, "thorough": 12000, "shards_thorough": 8},
        ],
    },
    "C11": {
        "level": "exploration",
        "assumptions": ["encoding/json, encoding/xml, gogo/protobuf and apache thrift define the supported value domain of their codecs (valid UTF-8, finite floats for JSON, XML-valid characters)"],
        "runs": [
            {"pkg": "pure", "run": "^TestC11(RoundTrip|Garbage)$", "quick": 4000, "thorough": 200000, "shards_thorough": 8},
        ],
    },
    "C12": {
        "level": "fault_enumeration",
        "assumptions": ["compress/gzip and crypto/md5 are trusted; corruption = xor of one byte of the packed payload"],
        "runs": [
            {"pkg": "pure", "run": "^TestC12(Invert|Unregistered)$", "quick": 1500, "thorough": 60000, "shards_thorough": 6},
            {"pkg": "pure", "run": "^TestC12Corruption$", "quick": 150, "thorough": 4000, "shards_thorough": 4},
            {"pkg": "pure", "run": "^TestC12CorruptionExhaustive$", "quick": 1, "thorough": 1, "only": "thorough", "rapid": False},
        ],
    },
}
