# Per-property run configuration for check.py.
# Each run = one invocation of a harness test binary:
#   pkg      harness package (./harness/<pkg>)
#   run      -test.run regexp
#   quick    -rapid.checks for the quick tier      thorough: for the thorough tier
#   shards_thorough: number of processes (different derived seeds) the thorough case count is split over
CHECKS = {
    "C05": {
        "level": "exploration",
        "assumptions": [
            "message field domains are the protocols' documented supported sets (DESIGN.md C05 table)",
            "bodies are raw byte strings (the documented codec bypass), so third-party codecs are not in the trusted base",
        ],
        "runs": [
            {"pkg": "wire", "run": "^TestC05(Raw|JSON|PB|HTTP|WsJSON|WsPB)$", "quick": 300, "thorough": 24000, "shards_thorough": 8},
            {"pkg": "wire", "run": "^TestC05KnownProbes$", "quick": 1, "thorough": 1},
            {"pkg": "core", "run": "^TestC05WebsocketChunks$", "quick": 300, "thorough": 10000, "shards_thorough": 4},
            {"pkg": "thriftw", "run": "^TestC05Thrift(Binary|Struct)$", "quick": 300, "thorough": 24000, "shards_thorough": 4},
            {"pkg": "thriftw", "run": "^TestC05UntakenReplies$", "quick": 600, "thorough": 20000, "shards_thorough": 4},
        ],
    },
    "C01": {
        "level": "exploration",
        "assumptions": ["interleavings are those the Go scheduler produces under the generated load and read chunking; no schedule is forced inside pack/unpack"],
        "runs": [
            {"pkg": "core", "run": "^TestC01CrossTalk$", "quick": 400, "thorough": 12000, "shards_thorough": 8},
            {"pkg": "core", "run": "^TestC01SequenceNumbers$", "quick": 60, "thorough": 2000, "shards_thorough": 8},
            {"pkg": "core", "run": "^TestC01Controllers$", "quick": 400, "thorough": 20000, "shards_thorough": 4},
            {"pkg": "core", "run": "^TestC01Binder$", "quick": 250, "thorough": 8000, "shards_thorough": 4},
            {"pkg": "thriftw", "run": "^TestC01ThriftSessions$", "quick": 200, "thorough": 6000, "shards_thorough": 4},
        ],
    },
    "C11": {
        "level": "exploration",
        "assumptions": ["encoding/json, encoding/xml, gogo/protobuf and apache thrift define the supported value domain of their codecs (valid UTF-8, finite floats for JSON, XML-valid characters)"],
        "runs": [
            {"pkg": "pure", "run": "^TestC11(RoundTrip|Garbage)$", "quick": 4000, "thorough": 200000, "shards_thorough": 8},
            {"pkg": "pure", "run": "^TestC11LengthFields$", "quick": 4000, "thorough": 200000, "shards_thorough": 8},
            {"pkg": "pure", "run": "^$", "fuzz": "^FuzzDecodeJSON$", "fuzztime": "60s", "fuzzworkers": 4, "only": "thorough", "rapid": False, "timeout_thorough": 900},
            {"pkg": "pure", "run": "^$", "fuzz": "^FuzzDecodeXML$", "fuzztime": "60s", "fuzzworkers": 4, "only": "thorough", "rapid": False, "timeout_thorough": 900},
            {"pkg": "pure", "run": "^$", "fuzz": "^FuzzDecodeForm$", "fuzztime": "60s", "fuzzworkers": 4, "only": "thorough", "rapid": False, "timeout_thorough": 900},
            {"pkg": "pure", "run": "^$", "fuzz": "^FuzzDecodePlain$", "fuzztime": "60s", "fuzzworkers": 4, "only": "thorough", "rapid": False, "timeout_thorough": 900},
            {"pkg": "pure", "run": "^$", "fuzz": "^FuzzDecodeProtobuf$", "fuzztime": "60s", "fuzzworkers": 4, "only": "thorough", "rapid": False, "timeout_thorough": 900},
            {"pkg": "pure", "run": "^$", "fuzz": "^FuzzDecodeThrift$", "fuzztime": "60s", "fuzzworkers": 4, "only": "thorough", "rapid": False, "timeout_thorough": 900},
        ],
    },
    "C12": {
        "level": "fault_enumeration",
        "assumptions": ["compress/gzip and crypto/md5 are trusted; corruption = xor of one byte of the packed payload"],
        "runs": [
            {"pkg": "pure", "run": "^TestC12(Invert|Unregistered|PipeReuse)$", "quick": 1500, "thorough": 60000, "shards_thorough": 6},
            {"pkg": "pure", "run": "^TestC12Corruption$", "quick": 150, "thorough": 4000, "shards_thorough": 4},
            {"pkg": "pure", "run": "^TestC12Registry$", "quick": 400, "thorough": 8000},
            {"pkg": "thriftw", "run": "^TestC12ThriftUnregistered$", "quick": 200, "thorough": 5000},
            {"pkg": "core", "run": "^TestC12ReplyPipe$", "quick": 600, "thorough": 30000, "shards_thorough": 4},
            {"pkg": "pure", "run": "^TestC12LimitedFrames$", "quick": 300, "thorough": 12000, "shards_thorough": 8},
            {"pkg": "core", "run": "^TestC12LimitedCalls$", "quick": 300, "thorough": 12000, "shards_thorough": 8},
            {"pkg": "pure", "run": "^TestC12CorruptionExhaustive$", "quick": 1, "thorough": 1, "only": "thorough", "rapid": False},
        ],
    },
    "C02": {
        "level": "fault_enumeration",
        "assumptions": ["liveness is judged with a 20 s bound (operations take milliseconds) plus a goroutine dump; only generated event orders are seen",
                        "a local Close is not by itself a terminal event for pending calls (graceful close waits for their replies, see C08)",
                        "a completion channel shared by more calls than its capacity is checked only with a consumer that keeps receiving from it (a full channel nobody reads blocks the framework by design: AsyncCall documents that the caller provides enough buffer)"],
        "runs": [
            {"pkg": "core", "run": "^TestC02Completion$", "quick": 1500, "thorough": 60000, "shards_thorough": 8},
            {"pkg": "core", "run": "^TestC02SendWindow$", "quick": 600, "thorough": 30000, "shards_thorough": 4},
            {"pkg": "core", "run": "^TestC02NestedCall$", "quick": 300, "thorough": 10000, "shards_thorough": 4},
            {"pkg": "core", "run": "^TestC02WriteQueue$", "quick": 200, "thorough": 8000, "shards_thorough": 4},
            {"pkg": "core", "run": "^TestC02SharedChannel$", "quick": 300, "thorough": 15000, "shards_thorough": 4},
            {"pkg": "core", "run": "^TestC02SmallPool$", "quick": 300, "thorough": 15000, "shards_thorough": 4},
            {"pkg": "core", "run": "^TestC02Oversize$", "quick": 600, "thorough": 30000, "shards_thorough": 4},
            {"pkg": "core", "run": "^TestC02HTTPReplies$", "quick": 400, "thorough": 20000, "shards_thorough": 4},
            {"pkg": "core", "run": "^TestC02WebsocketReplies$", "quick": 300, "thorough": 10000, "shards_thorough": 4},
            {"pkg": "core", "run": "^TestC02CutSweep$", "quick": 1, "thorough": 1, "rapid": False},
        ],
    },
    "C03": {
        "level": "exploration",
        "assumptions": ["transport write faults during the reply are outside the property's quantifier and are not injected"],
        "runs": [
            {"pkg": "core", "run": "^TestC03Dispatch$", "quick": 1500, "thorough": 60000, "shards_thorough": 8},
            {"pkg": "core", "run": "^TestC03HTTPTypes$", "quick": 500, "thorough": 20000, "shards_thorough": 4},
            {"pkg": "core", "run": "^TestC03SmallPool$", "quick": 500, "thorough": 20000, "shards_thorough": 4},
            {"pkg": "core", "run": "^TestC03SessionAge$", "quick": 50, "thorough": 1500, "shards_thorough": 8},
        ],
    },
    "C04": {
        "level": "exploration",
        "assumptions": ["status text domain per protocol: any bytes for raw/json/pb/ws, valid UTF-8 for http (JSON status document); an empty cause equals no cause over http",
                        "handler statuses travel to the handler inside the request body, so their text is restricted to what the request codec can carry (XML-valid / valid UTF-8)"],
        "runs": [
            {"pkg": "thriftw", "run": "^TestC04ThriftStatus$", "quick": 800, "thorough": 40000, "shards_thorough": 4},
            {"pkg": "core", "run": "^TestC04Status$", "quick": 1500, "thorough": 60000, "shards_thorough": 8},
            {"pkg": "core", "run": "^TestC04KnownProbes$", "quick": 1, "thorough": 1, "rapid": False},
        ],
    },
    "C09": {
        "level": "exploration",
        "assumptions": ["plugin sets are bounded (<= ~12 plugins); PreReadHeader is not part of the compared trace because it cannot be attributed to a message"],
        "runs": [
            {"pkg": "core", "run": "^TestC09PluginOrder$", "quick": 1200, "thorough": 50000, "shards_thorough": 8},
        ],
    },
    "C10": {
        "level": "exploration",
        "assumptions": ["handler programs are drawn from a fixed library of controllers/functions (Go cannot create methods at run time)",
                        "expected names are computed with the public mapper functions; the mapper itself is checked against the documented table and its word templates"],
        "runs": [
            {"pkg": "core", "run": "^TestC10Routes$", "quick": 600, "thorough": 30000, "shards_thorough": 8},
            {"pkg": "core", "run": "^TestC10MapperFunction$", "quick": 20000, "thorough": 2000000, "shards_thorough": 8},
            {"pkg": "core", "run": "^TestC10MapperTable$", "quick": 1, "thorough": 1, "rapid": False},
        ],
    },
    "C20": {
        "level": "exploration",
        "assumptions": ["sync.Pool does not guarantee identity: the documented reset paths (Reset, ReleaseArgs/AcquireArgs, PutMessage/GetMessage) are exercised directly and real reuse is measured (GC held off during a case)"],
        "runs": [
            {"pkg": "core", "run": "^TestC20EarlySends$", "quick": 500, "thorough": 20000, "shards_thorough": 4},
            {"pkg": "pure", "run": "^TestC20(Message|Args|Socket)$", "quick": 3000, "thorough": 150000, "shards_thorough": 8},
            {"pkg": "pure", "run": "^TestC20ByteBuffers$", "quick": 6, "thorough": 200, "shards_thorough": 8},
            {"pkg": "thriftw", "run": "^TestC20FailedSends$", "quick": 300, "thorough": 10000, "shards_thorough": 4},
            {"pkg": "core", "run": "^TestC20Context$", "quick": 800, "thorough": 40000, "shards_thorough": 8},
        ],
    },
    "C06": {
        "level": "fault_enumeration",
        "assumptions": ["allocation is measured as the TotalAlloc delta around one Unpack with a generous bound (16*limit + 16*len(input) + 24 MiB); announcements used for detection are >= 64 MiB",
                        "decompression bombs (a frame within the read limit whose gzip payload inflates beyond it) are outside the generated classes",
                        "liveness: 20 s bound + goroutine dump",
                        "session-level read limits are 512 B .. 1 MiB: under the default 1 GiB limit an announcement just below it is a legitimate 1 GiB buffer per case, which only makes the liveness bound depend on machine load"],
        "runs": [
            {"pkg": "wire", "run": "^TestC06(Raw|JSON|PB|HTTP)Unpack$", "quick": 1500, "thorough": 60000, "shards_thorough": 8},
            {"pkg": "wire", "run": "^TestC06HTTPAnnounce$", "quick": 300, "thorough": 5000, "shards_thorough": 2},
            {"pkg": "wire", "run": "^TestC06TruncationSweep$", "quick": 1, "thorough": 1, "rapid": False},
            {"pkg": "thriftw", "run": "^TestC06Thrift(Binary|Struct)Unpack$", "quick": 1000, "thorough": 30000, "shards_thorough": 4},
            {"pkg": "thriftw", "run": "^TestC06Thrift(KnownProbes|TruncationSweep)$", "quick": 1, "thorough": 1, "rapid": False},
            {"pkg": "core", "run": "^TestC06Session$", "quick": 800, "thorough": 40000, "shards_thorough": 8},
            {"pkg": "core", "run": "^TestC06WebsocketControl$", "quick": 300, "thorough": 10000, "shards_thorough": 4},
            {"pkg": "core", "run": "^TestC06AcceptLoop$", "quick": 150, "thorough": 5000, "shards_thorough": 4},
            {"pkg": "core", "run": "^TestC06SmallPool$", "quick": 200, "thorough": 8000, "shards_thorough": 4},
            {"pkg": "pure", "run": "^TestC06BodyCodecAlloc$", "quick": 1500, "thorough": 60000, "shards_thorough": 4},
            {"pkg": "wire", "run": "^$", "fuzz": "^FuzzUnpackRaw$", "fuzztime": "90s", "fuzzworkers": 4, "only": "thorough", "rapid": False, "timeout_thorough": 900},
            {"pkg": "wire", "run": "^$", "fuzz": "^FuzzUnpackJSON$", "fuzztime": "90s", "fuzzworkers": 4, "only": "thorough", "rapid": False, "timeout_thorough": 900},
            {"pkg": "wire", "run": "^$", "fuzz": "^FuzzUnpackPB$", "fuzztime": "90s", "fuzzworkers": 4, "only": "thorough", "rapid": False, "timeout_thorough": 900},
            {"pkg": "wire", "run": "^$", "fuzz": "^FuzzUnpackHTTP$", "fuzztime": "90s", "fuzzworkers": 4, "only": "thorough", "rapid": False, "timeout_thorough": 900},
        ],
    },
    "C07": {
        "level": "exploration",
        "assumptions": ["invariants are evaluated at quiescent points: the harness awaits the close notification of every session the model says must die (20 s bound)",
                        "a Close racing a disconnect is produced by two goroutines with a generated head start, not by gate points inside the framework",
                        "SetID is applied to live sessions only (documented use)"],
        "runs": [
            {"pkg": "core", "run": "^TestC07Lifecycle$", "quick": 500, "thorough": 20000, "shards_thorough": 8},
            {"pkg": "core", "run": "^TestC07HookGate$", "quick": 400, "thorough": 10000, "shards_thorough": 4},
            {"pkg": "core", "run": "^TestC07DialHook$", "quick": 60, "thorough": 1500, "shards_thorough": 4},
            {"pkg": "core", "run": "^TestC07DialRetries$", "quick": 100, "thorough": 3000, "shards_thorough": 4},
            {"pkg": "core", "run": "^TestC07SmallPool$", "quick": 200, "thorough": 8000, "shards_thorough": 4},
        ],
    },
    "C08": {
        "level": "exploration",
        "assumptions": ["every handler counted as 'entered' has signalled entry before Close is invoked; calls issued after Close began are only required to complete exactly once",
                        "after a connection loss a session cancels its pending calls once its own running handlers finished; completion is therefore awaited after all releases"],
        "runs": [
            {"pkg": "core", "run": "^TestC08WebsocketClose$", "quick": 300, "thorough": 10000, "shards_thorough": 4},
            {"pkg": "core", "run": "^TestC08PeerCloseManySessions$", "quick": 300, "thorough": 10000, "shards_thorough": 4},
            {"pkg": "core", "run": "^TestC08ProcessShutdown$", "quick": 300, "thorough": 10000, "shards_thorough": 4},
            {"pkg": "core", "run": "^TestC08GracefulClose$", "quick": 1000, "thorough": 40000, "shards_thorough": 8},
            {"pkg": "core", "run": "^TestC08SessionAge$", "quick": 40, "thorough": 1200, "shards_thorough": 8},
        ],
    },
    "C15": {
        "level": "exploration",
        "assumptions": ["the accessor hook H2 lists the package-level predefined statuses; statuses created per call are not shared and are out of scope",
                        "a violation corrupts process-global state, so a failing history is reported as a log (not re-executable in the same process)"],
        "runs": [
            {"pkg": "core", "run": "^TestC15PluginStatuses$", "quick": 300, "thorough": 10000, "shards_thorough": 4},
            {"pkg": "core", "run": "^TestC15StatusImmutable$", "quick": 300, "thorough": 12000, "shards_thorough": 8},
            {"pkg": "core", "run": "^TestC15BatteryValues$", "quick": 1, "thorough": 1, "rapid": False},
        ],
    },
    "C16": {
        "level": "exploration",
        "assumptions": ["the dialling-side check uses loopback TCP (Dial needs a real dialer)"],
        "runs": [
            {"pkg": "core", "run": "^TestC16Auth$", "quick": 800, "thorough": 40000, "shards_thorough": 8},
            {"pkg": "core", "run": "^TestC16CutFrames$", "quick": 1500, "thorough": 40000, "shards_thorough": 8},
            {"pkg": "core", "run": "^TestC16Bearer$", "quick": 150, "thorough": 5000, "shards_thorough": 4},
        ],
    },
    "C17": {
        "level": "exploration",
        "assumptions": ["nothing is claimed about cipher strength (AES-ECB); 'not in clear' = the 24-character marker does not occur raw, hex- or base64-encoded in the captured frames",
                        "for (request secure, accept-secure=false) the reply's encryption is not asserted either way (the property text and the plugin's documented marker disagree)"],
        "runs": [
            {"pkg": "core", "run": "^TestC17Secure$", "quick": 1500, "thorough": 60000, "shards_thorough": 8},
        ],
    },
    "C18": {
        "level": "exploration",
        "assumptions": ["exact limiter models run on the verif-only wrappers (hook H3) with a manual clock; the end-to-end rate check uses the real ticker with a bound that wall-clock slowness can only loosen"],
        "runs": [
            {"pkg": "core", "run": "^TestC18(ConnLimiter|QPSLimiter)Model$", "quick": 2000, "thorough": 80000, "shards_thorough": 8},
            {"pkg": "core", "run": "^TestC18Connections$", "quick": 300, "thorough": 10000, "shards_thorough": 8},
            {"pkg": "core", "run": "^TestC18Rate$", "quick": 100, "thorough": 3000, "shards_thorough": 8},
            {"pkg": "core", "run": "^TestC18HandlerLimits$", "quick": 60, "thorough": 2000, "shards_thorough": 8},
            {"pkg": "core", "run": "^TestC18DialSide$", "quick": 100, "thorough": 3000, "shards_thorough": 8},
        ],
    },
    "C19": {
        "level": "exploration",
        "assumptions": ["backend handler statuses are drawn outside [100,199], the range the framework reserves for the sending peer's own errors (the proxy maps that range to Bad Gateway)",
                        "over the JSON wire protocol bodies are valid UTF-8 (wire-level text domain is C05's subject)"],
        "runs": [
            {"pkg": "core", "run": "^TestC19Proxy$", "quick": 800, "thorough": 40000, "shards_thorough": 8},
        ],
    },
    "C14": {
        "level": "exploration",
        "assumptions": ["the race detector only sees executed interleavings: absence of reports is not absence of races",
                        "a report counts only if the innermost non-runtime frame of both accesses is framework code; reports involving harness frames or documented non-concurrency-safe global setters are harness bugs (exit 2)",
                        "built with -race -gcflags=all=-d=checkptr=0 (the router's controller pools do uintptr arithmetic)"],
        "parallel_quick": 2,
        "runs": [
            {"pkg": "racew", "race": True, "run": "^TestC14Programs$", "quick": 100, "thorough": 800, "shards_thorough": 8, "timeout_quick": 900, "timeout_thorough": 7200},
            {"pkg": "racew", "race": True, "run": "^TestC14Pairs$", "quick": 1, "thorough": 1, "rapid": False, "env": {"VERIF_C14_ROUNDS": "3000"}, "timeout_quick": 900},
            {"pkg": "racew", "race": True, "run": "^TestC14Codecs$", "quick": 300, "thorough": 20000, "shards_thorough": 4},
            {"pkg": "racew", "race": True, "run": "^TestC14Overloader$", "quick": 60, "thorough": 3000, "shards_thorough": 4},
            {"pkg": "racew", "race": True, "run": "^TestC14Completion$", "quick": 400, "thorough": 20000, "shards_thorough": 4},
            {"pkg": "racew", "race": True, "run": "^TestC14Establish$", "quick": 300, "thorough": 8000, "shards_thorough": 4},
            {"pkg": "racew", "race": True, "run": "^TestC14Pairs$", "quick": 1, "thorough": 1, "rapid": False, "only": "thorough", "env": {"VERIF_C14_ROUNDS": "30000"}},
            {"pkg": "racew", "race": True, "run": "^TestC14Programs$", "quick": 40, "thorough": 200, "shards_thorough": 4, "env": {"VERIF_C14_LOG": "info"}, "timeout_quick": 900, "timeout_thorough": 7200},
        ],
    },
    "C13": {
        "level": "exploration",
        "assumptions": ["loopback TCP; 'eventually reconnects' is judged with a 10 s bound after the server is reachable again",
                        "loss detection order (reader first / writer first) is whatever the generated kills produce; no in-framework gates",
                        "with a small budget a short outage may or may not exhaust it: both outcomes are accepted and the oracle follows the observed one"],
        "runs": [
            {"pkg": "core", "run": "^TestC13Redial$", "quick": 150, "thorough": 4000, "shards_thorough": 8},
            {"pkg": "core", "run": "^TestC13SmallPool$", "quick": 60, "thorough": 2000, "shards_thorough": 4},
        ],
    },
}
