#!/usr/bin/env python3
import json, sys, glob
import jsonschema
m = json.load(open('/verif/MANIFEST.json'))
jsonschema.validate(m, json.load(open('/root/.vp/MANIFEST.schema.json')))
es = json.load(open('/root/.vp/EVIDENCE.schema.json'))
bad = 0
for c in m['checks']:
    try:
        e = json.load(open(c['evidence_file']))
        jsonschema.validate(e, es)
        assert e['level'] == c['level_claimed']['category'], "level mismatch"
        cov = e['coverage']
        print(c['property_id'], e['tier'], 'evals', cov.get('evaluations'), 'distinct_nt', cov.get('distinct_nontrivial'), 'wall', e['wall_s'], 'viol', e.get('violations'))
    except Exception as ex:
        bad += 1
        print(c['property_id'], 'INVALID', str(ex)[:200])
print('manifest valid; evidence problems:', bad)
sys.exit(1 if bad else 0)
